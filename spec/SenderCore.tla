----------------------------- MODULE SenderCore -----------------------------
(* The pure functions of async_sender (impl/async_sender.hpp), shared by the   *)
(* implementation-shaped model Client.tla and by TraceSender.tla, which checks *)
(* that the internal events recorded from the real class are steps of them.   *)
EXTENDS Integers, Sequences

MAXLIMIT == 65535

\* do_write(): unthrottled requests always, throttled ones while quota lasts, order kept
\* q: sequence of records with at least the BOOLEAN field thr
TakeQ(q, qt) ==
    LET F[i \in 0..Len(q)] ==
            IF i = 0 THEN [b |-> << >>, r |-> << >>, qt |-> qt]
            ELSE LET p == F[i - 1]
                     x == q[i]
                 IN IF ~x.thr THEN [p EXCEPT !.b = Append(@, x)]
                    ELSE IF p.qt > 0 THEN [p EXCEPT !.b = Append(@, x), !.qt = @ - 1]
                    ELSE [p EXCEPT !.r = Append(@, x)]
    IN F[Len(q)]

\* the whole batch formation: a terminal request (DISCONNECT of async_disconnect) goes alone and first;
\* without a Receive Maximum everything goes; otherwise TakeQ.  Records need fields thr, term.
FormBatch(q, qt, lim) ==
    IF \E i \in DOMAIN q : q[i].term
      THEN LET i == CHOOSE i \in DOMAIN q : q[i].term /\ \A j \in 1..(i - 1) : ~q[j].term
           IN [b |-> <<q[i]>>, r |-> SubSeq(q, 1, i - 1) \o SubSeq(q, i + 1, Len(q)), qt |-> qt]
    ELSE IF lim = MAXLIMIT THEN [b |-> q, r |-> << >>, qt |-> qt]
    ELSE TakeQ(q, qt)

\* write_req::operator<  : prioritized first, then serial number (wrap-around ignored: serials are small here)
ReqLess(a, b) == IF a.prio # b.prio THEN a.prio ELSE a.serial < b.serial

\* std::stable_sort by ReqLess = insertion sort that keeps equal elements in order
StableSort(q) ==
    LET Ins(s, x) ==
            LET k == IF \E i \in DOMAIN s : ReqLess(x, s[i])
                       THEN CHOOSE i \in DOMAIN s : ReqLess(x, s[i]) /\ \A j \in 1..(i - 1) : ~ReqLess(x, s[j])
                       ELSE Len(s) + 1
            IN SubSeq(s, 1, k - 1) \o <<x>> \o SubSeq(s, k, Len(s))
        F[i \in 0..Len(q)] == IF i = 0 THEN << >> ELSE Ins(F[i - 1], q[i])
    IN F[Len(q)]
=============================================================================
