------------------------------ MODULE Observer ------------------------------
(***************************************************************************)
(* The observable-event specification of the MQTT 5 client.                *)
(*                                                                         *)
(* It contains exactly what the listed properties C01..C15 say, phrased    *)
(* over the events an outside observer can see: application calls and      *)
(* completions, packets the client hands to the transport, packets the     *)
(* broker received and sent per connection, connection attempts, virtual   *)
(* time.  It is deliberately NOT implementation shaped.                    *)
(*                                                                         *)
(*   ObsInit            initial observer state (a record)                  *)
(*   ObsStep(o, e)      observer state after event e                       *)
(*   Viol(o, e)         names of the property clauses event e violates     *)
(*                      when it happens in observer state o                *)
(*                                                                         *)
(* Two users: TraceObserver.tla folds the events recorded from the real    *)
(* client through these operators (trace validation); Client.tla, the      *)
(* implementation-shaped model, emits the same events from its actions and *)
(* TLC checks  Viol = {}  over every interleaving (model checking).        *)
(***************************************************************************)
EXTENDS Integers, Sequences, FiniteSets, TLC

TransportErrs == {"reset", "eof", "refused", "not_connected", "timed_out", "broken_pipe",
                  "conn_aborted", "try_again", "no_recovery", "host_not_found",
                  "access_denied", "fault"}
ClientErrs == {"malformed_packet", "packet_too_large", "pid_overrun", "invalid_topic",
               "qos_not_supported", "retain_not_available", "topic_alias_maximum_reached",
               "wildcard_subscription_not_available", "subscription_identifier_not_available",
               "shared_subscription_not_available"}
ReqKinds  == {"pub1", "pub2", "sub", "unsub"}          \* requests C02 talks about
PidKinds  == {"pub1", "pub2", "sub", "unsub"}          \* requests that hold a packet id
PubKinds  == {"pub0", "pub1", "pub2"}

SubackCodes   == {0, 1, 2, 128, 131, 135, 143, 145, 151, 158, 161, 162}
UnsubackCodes == {0, 17, 128, 131, 135, 143, 145}

Upd(f, k, v) == [x \in (DOMAIN f) \cup {k} |-> IF x = k THEN v ELSE f[x]]
EmptyFn == [x \in {} |-> 0]
Max(S) == CHOOSE x \in S : \A y \in S : y <= x
Min(S) == CHOOSE x \in S : \A y \in S : x <= y
Last(s) == s[Len(s)]

ObsInit == [
    cfgdig   |-> "", ka |-> 0, hosts |-> 1, nep |-> 1,
    ops      |-> EmptyFn,      \* op id -> request record
    nops     |-> 0,            \* number of calls so far (initiation order)
    recv     |-> << >>,        \* packets the broker fully received   (b_recv events)
    sent     |-> << >>,        \* packets the broker sent             (b_send events)
    pkts     |-> << >>,        \* packets the client handed to the transport (c_pkt events)
    used     |-> {},           \* k of broker acknowledgements already attributed to a completion
    conn     |-> EmptyFn,      \* connection id -> record
    wr       |-> EmptyFn,      \* write id -> [c, res]   res: 0 outstanding, 1 ok, 2 failed
    att      |-> EmptyFn,      \* attempt id -> record
    lastAtt  |-> 0,
    try      |-> [host |-> -1, t |-> 0, failT |-> -1, ok |-> FALSE, n |-> 0],  \* the broker currently being tried
    terminal |-> FALSE,        \* the caller ended the client (cancel / disconnect / destroy / a terminal per-operation cancellation)
    mustDrain |-> FALSE,       \* ... by cancel(), async_disconnect or destruction: C05 then demands that everything completes
                               \* (a terminal per-operation cancellation MAY end the whole client, the property does not demand it)
    termOrd  |-> -1,           \* number of requests initiated before that
    running  |-> FALSE,        \* async_run called and not ended since
    disc     |-> [op |-> 0, t |-> 0, rc |-> 0, dig |-> "", len |-> 0, maxpkt |-> 0,
                  c |-> 0, wrote |-> FALSE, on |-> {}, doneT |-> -1],
    deliv    |-> << >>,        \* messages handed to async_receive, in order
    bmsgs    |-> EmptyFn,      \* broker message token -> [k (first transmission), qos]
    q2done   |-> {},           \* broker QoS 2 messages whose exchange completed (PUBCOMP received)
    q1acked  |-> {},           \* broker QoS 1 messages acknowledged by the client
    hostile  |-> FALSE,        \* the broker sent something a conformant broker would not (raw bytes, a SUBACK with wrong codes)
    relsd    |-> {},           \* QoS 2 requests whose successful PUBREC the client has consumed (hook: dispatch / wait)
    recd     |-> {},           \* [id, x]: the client has read a successful PUBREC for QoS 2 request id while nobody waited for it
                               \* (hook: dispatch); x = the PUBLISH transmission (index into pkts) it answers
    subOk    |-> FALSE,        \* a subscription succeeded since start / last session_expired report
    owed     |-> 0,            \* session_expired reports owed and not yet delivered
    expired  |-> 0,            \* session_expired reports delivered
    newSess  |-> FALSE,        \* a report is owed and no message of the new session may overtake it
    drainT   |-> -1
]

---------------------------------------------------------------------------
(* helpers over the histories *)

OpIds(o) == DOMAIN o.ops
Outstanding(o, id) == o.ops[id].done = 0

\* the request a PUBLISH on the wire belongs to (message tokens are unique per request)
OpOfMsg(o, m) == {id \in OpIds(o) : o.ops[id].kind \in PubKinds /\ o.ops[id].msg = m}
OpOfDig(o, kind, d) == {id \in OpIds(o) : o.ops[id].kind = kind /\ o.ops[id].dig = d}
OpOfPkt(o, p) ==
    IF p.type = "PUBLISH" THEN OpOfMsg(o, p.msg)
    ELSE IF p.type = "SUBSCRIBE" THEN OpOfDig(o, "sub", p.dig)
    ELSE IF p.type = "UNSUBSCRIBE" THEN OpOfDig(o, "unsub", p.dig)
    ELSE {}

ConnOk(o, c) == c \in DOMAIN o.conn /\ o.conn[c].cack = 1
KOf(o, cr) == IF cr.ska >= 0 THEN cr.ska ELSE o.ka          \* negotiated keep-alive of a connection (seconds)

OpenAttempt(o) == \E a \in DOMAIN o.att : o.att[a].tclose = -1 /\ ~(o.att[a].c # 0 /\ ConnOk(o, o.att[a].c))
CancelledByCaller(o, id) == o.ops[id].cancelled \/ o.terminal \/ o.ops[id].atTerminal

---------------------------------------------------------------------------
(* C01 / C14: a success completion is backed by a matching acknowledgement *)

\* broker acknowledgement a (in o.sent) answers reception r (in o.recv)
Answers(a, r) == a.ans = r.k /\ a.c = r.c /\ a.pid = r.pid

Pub1Acks(o, op) ==
    {j \in DOMAIN o.sent :
        /\ o.sent[j].type = "PUBACK" /\ o.sent[j].k \notin o.used
        /\ \E i \in DOMAIN o.recv :
              /\ o.recv[i].type = "PUBLISH" /\ o.recv[i].ok = 1 /\ o.recv[i].qos = 1
              /\ o.recv[i].dig = op.dig /\ Answers(o.sent[j], o.recv[i])}

\* QoS 2: PUBLISH received, PUBREC (<0x80) sent for it, PUBREL received later, PUBCOMP sent for it
Pub2Acks(o, op) ==
    {j \in DOMAIN o.sent :
        /\ o.sent[j].type = "PUBCOMP" /\ o.sent[j].k \notin o.used
        /\ \E i2 \in DOMAIN o.recv :
              /\ o.recv[i2].type = "PUBREL" /\ Answers(o.sent[j], o.recv[i2])
              /\ \E i1 \in DOMAIN o.recv, j1 \in DOMAIN o.sent :
                    /\ o.recv[i1].type = "PUBLISH" /\ o.recv[i1].ok = 1 /\ o.recv[i1].qos = 2
                    /\ o.recv[i1].dig = op.dig /\ o.recv[i1].pid = o.recv[i2].pid
                    /\ o.sent[j1].type = "PUBREC" /\ o.sent[j1].rc < 128
                    /\ Answers(o.sent[j1], o.recv[i1])
                    /\ o.recv[i1].n < o.sent[j1].n /\ o.sent[j1].n < o.recv[i2].n}

\* QoS 2 ended by a failing PUBREC: that PUBREC is the final acknowledgement
Pub2Fails(o, op) ==
    {j \in DOMAIN o.sent :
        /\ o.sent[j].type = "PUBREC" /\ o.sent[j].rc >= 128 /\ o.sent[j].k \notin o.used
        /\ \E i \in DOMAIN o.recv :
              /\ o.recv[i].type = "PUBLISH" /\ o.recv[i].ok = 1 /\ o.recv[i].qos = 2
              /\ o.recv[i].dig = op.dig /\ Answers(o.sent[j], o.recv[i])}

SubAcks(o, op, req, ack) ==
    {j \in DOMAIN o.sent :
        /\ o.sent[j].type = ack /\ o.sent[j].k \notin o.used
        /\ \E i \in DOMAIN o.recv :
              /\ o.recv[i].type = req /\ o.recv[i].ok = 1
              /\ o.recv[i].dig = op.dig /\ Answers(o.sent[j], o.recv[i])}

AcksFor(o, op) ==
    IF op.kind = "pub1" THEN Pub1Acks(o, op)
    ELSE IF op.kind = "pub2" THEN Pub2Acks(o, op) \cup Pub2Fails(o, op)
    ELSE IF op.kind = "sub" THEN SubAcks(o, op, "SUBSCRIBE", "SUBACK")
    ELSE IF op.kind = "unsub" THEN SubAcks(o, op, "UNSUBSCRIBE", "UNSUBACK")
    ELSE {}

\* the acknowledgement whose contents the handler reports
AckMatchesDone(o, j, op, e) ==
    LET a == o.sent[j] IN
    IF op.kind \in {"pub1", "pub2"}
      THEN /\ e.rc = a.rc
           /\ (a.type = "PUBREC" \/ e.pdig = a.dig)   \* a failing PUBREC's properties are not surfaced
      ELSE /\ e.codes = a.codes /\ e.pdig = a.dig

AckWellFormed(o, j, op) ==
    LET a == o.sent[j] IN
    IF op.kind = "sub" THEN Len(a.codes) = op.nt /\ \A x \in DOMAIN a.codes : a.codes[x] \in SubackCodes
    ELSE IF op.kind = "unsub" THEN Len(a.codes) = op.nt /\ \A x \in DOMAIN a.codes : a.codes[x] \in UnsubackCodes
    ELSE TRUE

ChosenAck(o, op, e) ==
    LET all == AcksFor(o, op)
        exact == {j \in all : AckMatchesDone(o, j, op, e)}
    IN IF exact # {} THEN Min(exact) ELSE IF all # {} THEN Min(all) ELSE 0

---------------------------------------------------------------------------
(* C15: which documented errors apply to a request under the capabilities  *)
(* the client holds (the snapshot logged with the call)                    *)

Applicable(c) ==
    IF c.kind \in PubKinds THEN
         (IF c.h_maxpkt > 0 /\ c.len > c.h_maxpkt THEN {"packet_too_large"} ELSE {})
    \cup (IF c.qos > c.h_mqos THEN {"qos_not_supported"} ELSE {})
    \cup (IF c.retain = 1 /\ c.h_ra = 0 THEN {"retain_not_available"} ELSE {})
    \cup (IF c.alias # -1 /\ (c.h_tam = 0 \/ c.alias > c.h_tam) THEN {"topic_alias_maximum_reached"} ELSE {})
    ELSE IF c.kind = "sub" THEN
         (IF c.h_maxpkt > 0 /\ c.len > c.h_maxpkt THEN {"packet_too_large"} ELSE {})
    \cup (IF c.wild = 1 /\ c.h_wa = 0 THEN {"wildcard_subscription_not_available"} ELSE {})
    \cup (IF c.shared = 1 /\ c.h_sha = 0 THEN {"shared_subscription_not_available"} ELSE {})
    \cup (IF c.subid = 1 /\ c.h_sia = 0 THEN {"subscription_identifier_not_available"} ELSE {})
    ELSE IF c.kind = "unsub" THEN
         (IF c.h_maxpkt > 0 /\ c.len > c.h_maxpkt THEN {"packet_too_large"} ELSE {})
    ELSE {}

CapErrs == {"packet_too_large", "qos_not_supported", "retain_not_available",
            "topic_alias_maximum_reached", "wildcard_subscription_not_available",
            "shared_subscription_not_available", "subscription_identifier_not_available"}

---------------------------------------------------------------------------
(* state update *)

NewConn(e) == [host |-> e.host, a |-> e.a, t0 |-> e.t, cack |-> 0, tCack |-> -1, sp |-> 0,
               rm |-> 65535, mqos |-> 2, ra |-> 1, maxpkt |-> 0, tam |-> 0, wa |-> 1, sha |-> 1, sia |-> 1,
               ska |-> -1, closed |-> FALSE, nrecv |-> 0, npkt |-> 0,
               infl |-> {},            \* C07: ids of PUBLISH QoS>0 received and not yet acknowledged
               ords |-> << >>,         \* C06: initiation order numbers of the PUBLISH packets written
               pingT |-> << >>,        \* C12: times PINGREQ was handed to the transport
               lastWriteEnd |-> -1, lastWriteStart |-> -1,   \* start/end of the write that ended last
               tEst |-> e.t,           \* C12: when the client finished reading the CONNACK (last read before its 2nd packet)
               pingBase |-> -1,        \* C12: end of the write of the last PINGREQ
               pingW |-> 0,            \* write id carrying the last PINGREQ
               discSeen |-> FALSE,     \* a DISCONNECT was written on this connection
               bpub |-> << >>,         \* C04: broker's QoS>0 PUBLISH not yet acknowledged [pid, qos, msg, state]
               relOwed |-> {},         \* C04: PUBREL sent to the client and not yet answered
               rd |-> 0,               \* bytes the client has read on this connection
               oweAt |-> -1            \* C13: a CONNACK with Session Present 0 ends at this offset; the report is owed once it is read
              ]

StepCall(o, e) ==
    LET rec == [kind |-> e.kind, dig |-> e.dig, qos |-> e.qos, nt |-> e.nt, msg |-> e.msg, t |-> e.t,
                ord |-> o.nops + 1, ret |-> FALSE, done |-> 0, ec |-> "", cancelled |-> FALSE,
                pid |-> 0, tdone |-> -1, atTerminal |-> o.terminal \/ ~o.running,
                \* (a Topic Alias of 0 is malformed whatever the broker announced: validation, not capability)
                app |-> IF e.kind \in (PubKinds \cup {"sub", "unsub"}) /\ ~(e.kind \in PubKinds /\ e.alias = 0)
                          THEN Applicable(e) ELSE {},
                invalid |-> e.kind \in PubKinds /\ e.alias = 0,
                \* C08: the identifier is the least one not in use, so it cannot exceed this bound
                pidBound |-> 1 + Cardinality({id2 \in OpIds(o) : o.ops[id2].kind \in PidKinds /\ o.ops[id2].done = 0})]
        o1 == [o EXCEPT !.ops = Upd(o.ops, e.op, rec), !.nops = o.nops + 1]
    IN IF e.kind = "run" THEN [o1 EXCEPT !.running = TRUE, !.terminal = FALSE, !.mustDrain = FALSE, !.termOrd = -1,
                                         !.try = [host |-> -1, t |-> 0, failT |-> -1, ok |-> FALSE, n |-> o.try.n],
                                         !.disc = [@ EXCEPT !.op = 0, !.doneT = -1, !.on = {}]]
       ELSE IF e.kind = "disc"
         THEN [o1 EXCEPT !.terminal = TRUE, !.mustDrain = TRUE, !.termOrd = IF o.terminal THEN o.termOrd ELSE o1.nops,
                         !.disc = [op |-> e.op, t |-> e.t, rc |-> e.qos, dig |-> e.dig, len |-> e.len,
                                   maxpkt |-> e.h_maxpkt, c |-> 0, wrote |-> FALSE, on |-> {}, doneT |-> -1]]
       ELSE o1

StepDone(o, e) ==
    IF e.op \notin OpIds(o) THEN o ELSE
    LET op == o.ops[e.op]
        j  == IF e.ec = "ok" /\ op.kind \in ReqKinds THEN ChosenAck(o, op, e) ELSE 0
        o1 == [o EXCEPT !.ops[e.op] = [op EXCEPT !.done = op.done + 1, !.ec = e.ec, !.tdone = e.t],
                        !.used = IF j = 0 THEN o.used ELSE o.used \cup {o.sent[j].k}]
        o2 == IF op.kind = "recv" /\ e.ec = "ok"
                THEN [o1 EXCEPT !.deliv = Append(o.deliv, [msg |-> e.msg, dig |-> e.dig, n |-> e.n])]
              ELSE IF op.kind = "recv" /\ e.ec = "session_expired"
                THEN [o1 EXCEPT !.expired = o.expired + 1, !.owed = IF o.owed > 0 THEN o.owed - 1 ELSE 0,
                                !.newSess = FALSE]
              ELSE IF op.kind = "sub" /\ e.ec = "ok" /\ \E x \in DOMAIN e.codes : e.codes[x] < 128
                THEN [o1 EXCEPT !.subOk = TRUE]
              ELSE IF op.kind = "disc" THEN [o1 EXCEPT !.disc.doneT = e.t, !.running = FALSE]
              ELSE IF op.kind = "run" THEN [o1 EXCEPT !.running = FALSE]
              ELSE o1
    IN o2

StepPkt(o, e) ==   \* c_pkt: one packet handed to the transport by the client
    LET ids == OpOfPkt(o, e)
        o1 == [o EXCEPT !.pkts = Append(o.pkts, e)]
        o2 == IF ids # {} /\ e.pid # 0
                THEN LET id == Min(ids) IN
                     IF o.ops[id].pid = 0 THEN [o1 EXCEPT !.ops[id].pid = e.pid] ELSE o1
                ELSE o1
        c  == e.c
    IN IF c \notin DOMAIN o.conn THEN o2 ELSE
       LET cr == o2.conn[c]
           cr1 == [cr EXCEPT !.npkt = cr.npkt + 1,
                             !.discSeen = cr.discSeen \/ e.type = "DISCONNECT",
                             !.pingT = IF e.type = "PINGREQ" THEN Append(cr.pingT, e.t) ELSE cr.pingT,
                             !.pingW = IF e.type = "PINGREQ" THEN e.w ELSE cr.pingW,
                             !.ords = IF e.type = "PUBLISH" /\ ids # {}
                                        THEN Append(cr.ords, [ord |-> o.ops[Min(ids)].ord, qos |-> e.qos])
                                        ELSE cr.ords]
       IN [o2 EXCEPT !.conn[c] = cr1,
                     \* (the DISCONNECT of async_disconnect is re-sent on a new connection when its write failed)
                     !.disc = IF e.type = "DISCONNECT" /\ o.disc.op # 0 /\ o.disc.doneT < 0
                                THEN [o.disc EXCEPT !.wrote = TRUE, !.c = c, !.on = @ \cup {c}] ELSE o.disc]

StepBRecv(o, e) ==
    LET o1 == [o EXCEPT !.recv = Append(o.recv, e)]
        c  == e.c
    IN IF c \notin DOMAIN o.conn THEN o1 ELSE
       LET cr == o.conn[c]
           infl1 == IF e.type = "PUBLISH" /\ e.qos > 0 THEN cr.infl \cup {e.pid} ELSE cr.infl
           \* client acknowledgements of the broker's own publishes
           bpub1 == IF e.type \in {"PUBACK", "PUBCOMP"} \/ (e.type = "PUBREC" /\ e.rc >= 128)
                      THEN SelectSeq(cr.bpub, LAMBDA m : ~(m.pid = e.pid))
                    ELSE IF e.type = "PUBREC"
                      THEN [x \in DOMAIN cr.bpub |-> IF cr.bpub[x].pid = e.pid THEN [cr.bpub[x] EXCEPT !.state = 1] ELSE cr.bpub[x]]
                    ELSE cr.bpub
           rel1 == IF e.type = "PUBCOMP" THEN cr.relOwed \ {e.pid} ELSE cr.relOwed
           ackd == {cr.bpub[x].msg : x \in {y \in DOMAIN cr.bpub : cr.bpub[y].pid = e.pid}}
       IN [o1 EXCEPT !.conn[c] = [cr EXCEPT !.nrecv = cr.nrecv + 1, !.infl = infl1, !.bpub = bpub1, !.relOwed = rel1],
                     !.q2done = IF e.type = "PUBCOMP" THEN o.q2done \cup {cr.bpub[x].msg : x \in {y \in DOMAIN cr.bpub : cr.bpub[y].pid = e.pid /\ cr.bpub[y].qos = 2 /\ cr.bpub[y].state = 1}} ELSE o.q2done,
                     !.q1acked = IF e.type = "PUBACK" THEN o.q1acked \cup {cr.bpub[x].msg : x \in {y \in DOMAIN cr.bpub : cr.bpub[y].pid = e.pid /\ cr.bpub[y].qos = 1}} ELSE o.q1acked]

BadSubAck(o, e) ==
    /\ e.type \in {"SUBACK", "UNSUBACK"}
    /\ \/ \E x \in DOMAIN e.codes : e.codes[x] \notin (IF e.type = "SUBACK" THEN SubackCodes ELSE UnsubackCodes)
       \/ \E i \in DOMAIN o.recv : o.recv[i].k = e.ans /\ o.recv[i].type \in {"SUBSCRIBE", "UNSUBSCRIBE"} /\ o.recv[i].nt # Len(e.codes)

StepBSend(o, e) ==
    LET o1 == [o EXCEPT !.sent = Append(o.sent, e), !.hostile = o.hostile \/ BadSubAck(o, e)]
        c  == e.c
    IN IF c \notin DOMAIN o.conn THEN o1 ELSE
       LET cr == o.conn[c] IN
       IF e.type = "CONNACK" THEN
            \* (the client learns of a lost session only when it has READ the CONNACK: a connection that dies between
            \* the broker sending Session Present 0 and the client reading it tells the client nothing, and the next
            \* CONNACK says Session Present 1 for the broker's new, empty session - see Realize below)
            LET ok == e.rc < 128
                owe == ok /\ e.sp = 0
            IN [o1 EXCEPT !.conn[c] = [cr EXCEPT !.cack = IF ok THEN 1 ELSE 2, !.tCack = e.t, !.sp = e.sp,
                                     !.rm = e.rm, !.mqos = e.mqos, !.ra = e.ra, !.maxpkt = e.maxpkt, !.tam = e.tam,
                                     !.wa = e.wa, !.sha = e.sha, !.sia = e.sia, !.ska = e.ska,
                                     !.oweAt = IF owe THEN e.end ELSE @],
                          !.try = [o.try EXCEPT !.ok = ok, !.failT = IF ok THEN @ ELSE e.t]]
       ELSE IF e.type \in {"PUBACK", "PUBCOMP"} \/ (e.type = "PUBREC" /\ e.rc >= 128)
            THEN [o1 EXCEPT !.conn[c].infl = cr.infl \ {e.pid}]
       ELSE IF e.type = "PUBLISH"
            THEN LET o2 == IF e.msg \in DOMAIN o.bmsgs THEN o1 ELSE [o1 EXCEPT !.bmsgs = Upd(o.bmsgs, e.msg, [k |-> e.k, qos |-> e.qos])]
                 IN IF e.qos > 0 THEN [o2 EXCEPT !.conn[c].bpub = Append(cr.bpub, [pid |-> e.pid, qos |-> e.qos, msg |-> e.msg, state |-> 0])]
                    ELSE o2
       ELSE IF e.type = "PUBREL"
            THEN [o1 EXCEPT !.conn[c].relOwed = cr.relOwed \cup {e.pid}]
       ELSE o1

\* guarded hook events of the library (include/boost/mqtt5/detail/verif.hpp).  Only one fact is taken from them:
\* the instant the client consumes a PUBREC (replies::dispatch finds the waiter, or async_wait_reply finds the
\* fast reply).  0x50 = 80 is the PUBREC control code.
StepHook(o, e) ==
    IF (e.k = "dispatch" \/ e.k = "wait") /\ e.a = 80 /\ e.c = 1 THEN
        LET ids == {id \in OpIds(o) : o.ops[id].kind = "pub2" /\ o.ops[id].pid = e.b /\ o.ops[id].done = 0}
            recs == {j \in DOMAIN o.sent : o.sent[j].type = "PUBREC" /\ o.sent[j].pid = e.b}
        IN IF ids # {} /\ recs # {} /\ o.sent[Max(recs)].rc < 128 THEN [o EXCEPT !.relsd = @ \cup ids] ELSE o
    ELSE IF e.k = "dispatch" /\ e.a = 80 THEN
        \* read, no request waiting for it yet: kept as a "fast reply" for the request whose write is still completing
        LET ids == {id \in OpIds(o) : o.ops[id].kind = "pub2" /\ o.ops[id].pid = e.b /\ o.ops[id].done = 0}
            recs == {j \in DOMAIN o.sent : o.sent[j].type = "PUBREC" /\ o.sent[j].pid = e.b}
            tx == {x \in DOMAIN o.pkts : o.pkts[x].type = "PUBLISH" /\ o.pkts[x].pid = e.b}     \* the transmission it answers: the latest
        IN IF ids # {} /\ recs # {} /\ tx # {} /\ o.sent[Max(recs)].rc < 128
             THEN [o EXCEPT !.recd = @ \cup {[id |-> id, x |-> Max(tx)] : id \in ids}] ELSE o
    ELSE o

ObsStep(o, e) ==
    CASE e.e = "reset"      -> ObsInit
      [] e.e = "cfg"        -> [o EXCEPT !.cfgdig = e.dig, !.ka = e.ka, !.hosts = e.hosts, !.nep = e.nep]
      [] e.e = "call"       -> StepCall(o, e)
      [] e.e = "ret"        -> IF e.op \in OpIds(o) THEN [o EXCEPT !.ops[e.op].ret = TRUE] ELSE o
      [] e.e = "done"       -> StepDone(o, e)
      [] e.e = "cancel_op"  -> IF e.op \in OpIds(o) /\ o.ops[e.op].done = 0   \* (a signal for a completed request reaches nobody)
                                 THEN [o EXCEPT !.ops[e.op].cancelled = TRUE,
                                                !.terminal = o.terminal \/ e.type = "terminal",
                                                !.termOrd = IF ~o.terminal /\ e.type = "terminal" THEN o.nops ELSE o.termOrd]
                                 ELSE o
      [] e.e = "cancel_all" -> [o EXCEPT !.terminal = TRUE, !.mustDrain = TRUE, !.running = FALSE, !.termOrd = IF o.terminal THEN o.termOrd ELSE o.nops]
      [] e.e = "destroy"    -> [o EXCEPT !.terminal = TRUE, !.mustDrain = TRUE, !.running = FALSE, !.termOrd = o.nops]
      [] e.e = "resolve"    -> [o EXCEPT !.try = [host |-> e.host, t |-> e.t, failT |-> -1, ok |-> FALSE, n |-> o.try.n + 1]]
      [] e.e = "resolve_end" -> IF e.ec # "ok" THEN [o EXCEPT !.try.failT = e.t] ELSE o
      [] e.e = "attempt"    -> [o EXCEPT !.att = Upd(o.att, e.a, [host |-> e.host, t |-> e.t, s |-> e.s, res |-> "",
                                                                  tclose |-> -1, c |-> 0, prev |-> o.lastAtt]),
                                         !.lastAtt = e.a]
      [] e.e = "attempt_end" -> LET o1 == IF e.a \in DOMAIN o.att
                                           THEN [o EXCEPT !.att[e.a].res = e.res, !.att[e.a].c = e.c] ELSE o
                                IN IF e.res = "ok" THEN [o1 EXCEPT !.conn = Upd(o.conn, e.c, NewConn(e))]
                                   ELSE [o1 EXCEPT !.try.failT = e.t]
      [] e.e = "stream_close" -> LET o1 == IF e.a \in DOMAIN o.att /\ o.att[e.a].tclose = -1
                                             THEN [o EXCEPT !.att[e.a].tclose = e.t,
                                                            !.try.failT = IF e.a = o.lastAtt /\ ~o.try.ok THEN e.t ELSE @]
                                             ELSE o
                                 IN IF e.c \in DOMAIN o.conn THEN [o1 EXCEPT !.conn[e.c].closed = TRUE] ELSE o1
      [] e.e = "conn_end"   -> IF e.c \in DOMAIN o.conn THEN [o EXCEPT !.conn[e.c].closed = TRUE] ELSE o
      [] e.e = "c_write"    -> [o EXCEPT !.wr = Upd(o.wr, e.w, [c |-> e.c, res |-> 0, pk |-> e.pk, t |-> e.t])]
      [] e.e = "c_write_end" -> LET o1 == IF e.w \in DOMAIN o.wr
                                            THEN [o EXCEPT !.wr[e.w].res = IF e.ec = "ok" THEN 1 ELSE 2] ELSE o
                                IN IF e.c \in DOMAIN o.conn
                                     THEN [o1 EXCEPT !.conn[e.c].lastWriteEnd = e.t,
                                                     !.conn[e.c].lastWriteStart = IF e.w \in DOMAIN o.wr THEN o.wr[e.w].t ELSE e.t,
                                                     !.conn[e.c].pingBase = IF o.conn[e.c].pingW = e.w THEN e.t ELSE @]
                                     ELSE o1
      [] e.e = "c_read_end" -> IF e.c \notin DOMAIN o.conn THEN o ELSE
                               LET o1 == IF o.conn[e.c].npkt <= 1 THEN [o EXCEPT !.conn[e.c].tEst = e.t] ELSE o
                                   rd == o.conn[e.c].rd + (IF e.ec = "ok" THEN e.nb ELSE 0)
                                   o2 == [o1 EXCEPT !.conn[e.c].rd = rd]
                                   \* the CONNACK with Session Present 0 has now been read completely
                                   owe == o.conn[e.c].oweAt >= 0 /\ rd >= o.conn[e.c].oweAt
                               IN IF ~owe THEN o2
                                  ELSE [o2 EXCEPT !.conn[e.c].oweAt = -1,
                                                  !.owed = IF o.subOk THEN o.owed + 1 ELSE o.owed,
                                                  !.subOk = FALSE,
                                                  !.newSess = IF o.subOk THEN TRUE ELSE o.newSess]
      [] e.e = "c_pkt"      -> StepPkt(o, e)
      [] e.e = "b_recv"     -> StepBRecv(o, e)
      [] e.e = "b_send"     -> StepBSend(o, e)
      [] e.e = "b_raw"      -> [o EXCEPT !.hostile = TRUE]
      [] e.e = "h"          -> StepHook(o, e)
      [] e.e = "drain"      -> [o EXCEPT !.drainT = e.t]
      [] OTHER              -> o

---------------------------------------------------------------------------
(* property clauses; each returns TRUE when the clause HOLDS for event e *)

\* ---- at a completion
DoneClauses(o, e) ==
    IF e.op \notin OpIds(o) THEN {"C05_x_UnknownOp"} ELSE
    LET op == o.ops[e.op]
        acks == AcksFor(o, op)
        exact == {j \in acks : AckMatchesDone(o, j, op, e)}
        okreq == e.ec = "ok" /\ op.kind \in ReqKinds
    IN
       (IF op.done >= 1 THEN {"C05_a_CompletedTwice"} ELSE {})
    \cup (IF e.inl = 1 THEN {"C05_b_CompletedInsideInitiatingCall"} ELSE {})
    \* C01 / C14: success only after the matching acknowledgement, with its contents
    \cup (IF okreq /\ op.kind \in {"pub1", "pub2"} /\ acks = {} THEN {"C01_a_SuccessWithoutAck"} ELSE {})
    \cup (IF okreq /\ op.kind \in {"pub1", "pub2"} /\ acks # {} /\ exact = {} THEN {"C01_b_HandlerArgsDiffer"} ELSE {})
    \cup (IF okreq /\ op.kind \in {"sub", "unsub"} /\ acks = {} THEN {"C14_a_SuccessWithoutAck"} ELSE {})
    \cup (IF okreq /\ op.kind \in {"sub", "unsub"} /\ acks # {} /\ exact = {} THEN {"C14_b_CodesDiffer"} ELSE {})
    \cup (IF okreq /\ op.kind \in {"sub", "unsub"} /\ exact # {} /\ \A j \in exact : ~AckWellFormed(o, j, op)
            THEN {"C14_c_MalformedAckSurfaced"} ELSE {})
    \cup (IF okreq /\ op.kind \in {"sub", "unsub"} /\ Len(e.codes) # op.nt THEN {"C14_b_CodeCount"} ELSE {})
    \* C02: never a transport error; aborted only when the caller asked for it
    \cup (IF op.kind \in ReqKinds /\ e.ec \in TransportErrs THEN {"C02_a_TransportErrorSurfaced"} ELSE {})
    \cup (IF op.kind \in ReqKinds /\ e.ec = "aborted" /\ ~CancelledByCaller(o, e.op) THEN {"C02_a_AbortedWithoutCancel"} ELSE {})
    \* C15: a request that exceeds an announced capability fails at once with a documented error
    \cup (IF op.app # {} /\ e.ec \notin op.app /\ ~(e.ec = "aborted" /\ o.terminal) THEN {"C15_a_WrongErrorForCapability"} ELSE {})
    \cup (IF op.app # {} /\ e.ec \in op.app /\ e.t # op.t THEN {"C15_a_NotImmediate"} ELSE {})
    \cup (IF op.app = {} /\ ~op.invalid /\ e.ec \in CapErrs THEN {"C15_c_RejectedWithoutReason"} ELSE {})
    \* C09: async_disconnect is done within 5 s
    \cup (IF op.kind = "disc" /\ e.t - op.t > 5000 THEN {"C09_c_LaterThan5s"} ELSE {})
    \* C13: session_expired only when owed
    \cup (IF op.kind = "recv" /\ e.ec = "session_expired" /\ o.owed = 0 THEN {"C13_b_UnexpectedSessionExpired"} ELSE {})
    \cup (IF op.kind = "recv" /\ e.ec = "ok" /\ o.newSess /\ \E c \in DOMAIN o.conn :
                 /\ o.conn[c].cack = 1 /\ c = Max({x \in DOMAIN o.conn : o.conn[x].cack = 1})
                 /\ \E j \in DOMAIN o.sent : o.sent[j].c = c /\ o.sent[j].type = "PUBLISH" /\ o.sent[j].msg = e.msg
            THEN {"C13_a_MessageBeforeSessionExpired"} ELSE {})
    \* C04: what is delivered is what the broker sent
    \cup (IF op.kind = "recv" /\ e.ec = "ok" /\ ~\E j \in DOMAIN o.sent :
                 o.sent[j].type = "PUBLISH" /\ o.sent[j].msg = e.msg /\ o.sent[j].pdig = e.dig
            THEN {"C04_d_DeliveredContentDiffers"} ELSE {})
    \* C04_g: within one QoS level, first deliveries follow the order of the broker's first transmissions
    \cup (IF op.kind = "recv" /\ e.ec = "ok" /\ e.msg \in DOMAIN o.bmsgs /\ ~(\E x \in DOMAIN o.deliv : o.deliv[x].msg = e.msg)
             /\ \E x \in DOMAIN o.deliv : /\ o.deliv[x].msg \in DOMAIN o.bmsgs
                                          /\ o.bmsgs[o.deliv[x].msg].qos = o.bmsgs[e.msg].qos
                                          /\ o.bmsgs[o.deliv[x].msg].k > o.bmsgs[e.msg].k
            THEN {"C04_g_DeliveredOutOfOrder"} ELSE {})
    \cup (IF op.kind = "recv" /\ e.ec = "ok" /\ (\E j \in DOMAIN o.sent : o.sent[j].type = "PUBLISH" /\ o.sent[j].msg = e.msg /\ o.sent[j].qos = 2)
             /\ \E x \in DOMAIN o.deliv : o.deliv[x].msg = e.msg
            THEN {"C04_e_Qos2DeliveredTwice"} ELSE {})

\* ---- at a packet written by the client
PktClauses(o, e) ==
    LET ids == OpOfPkt(o, e)
        c == e.c
        known == c \in DOMAIN o.conn
        cr == o.conn[c]
        earlier == {x \in DOMAIN o.pkts : o.pkts[x].type = "PUBLISH" /\ o.pkts[x].msg = e.msg}
    IN
       (IF e.type = "BAD" THEN {"C17_a_MalformedPacketWritten"} ELSE {})
    \* C04 / C18: a conformant broker never gives cause for DISCONNECT "malformed packet" / "protocol error"
    \cup (IF e.type = "DISCONNECT" /\ e.rc \in {129, 130} /\ ~o.hostile THEN {"C04_a_BrokerPacketRejectedAsMalformed"} ELSE {})
    \* C10: CONNECT first, nothing else before a successful CONNACK
    \cup (IF known /\ cr.npkt = 0 /\ e.type # "CONNECT" THEN {"C10_a_FirstPacketNotConnect"} ELSE {})
    \cup (IF known /\ cr.npkt = 0 /\ e.type = "CONNECT" /\ e.dig # o.cfgdig THEN {"C10_a_ConnectDiffersFromConfiguration"} ELSE {})
    \cup (IF known /\ cr.npkt > 0 /\ e.type = "CONNECT" THEN {"C10_a_SecondConnect"} ELSE {})
    \cup (IF known /\ cr.npkt > 0 /\ cr.cack # 1 /\ e.type \notin {"CONNECT", "AUTH"} THEN {"C10_b_PacketBeforeConnack"} ELSE {})
    \* C09: nothing follows the DISCONNECT of async_disconnect on its connection
    \cup (IF known /\ o.disc.op # 0 /\ c \in o.disc.on THEN {"C09_b_PacketAfterDisconnect"} ELSE {})
    \cup (IF o.disc.op # 0 /\ o.disc.doneT >= 0 /\ ~o.running THEN {"C09_e_WriteAfterDisconnectCompleted"} ELSE {})
    \* C08: identifiers
    \cup (IF e.type \in {"PUBLISH", "SUBSCRIBE", "UNSUBSCRIBE"} /\ (e.type # "PUBLISH" \/ e.qos > 0) /\ e.pid = 0
            THEN {"C08_b_ZeroPacketId"} ELSE {})
    \cup (IF ids # {} /\ e.pid # 0 /\ \E id2 \in OpIds(o) :
                 id2 \notin ids /\ o.ops[id2].kind \in PidKinds /\ o.ops[id2].pid = e.pid /\ Outstanding(o, id2)
            THEN {"C08_b_IdSharedByOutstandingExchanges"} ELSE {})
    \cup (IF ids # {} /\ e.pid # 0 /\ o.ops[Min(ids)].pid = 0 /\ e.pid > o.ops[Min(ids)].pidBound
            THEN {"C08_a_IdNotLowestFree"} ELSE {})
    \* ... and an identifier is reused only after its exchange has completed ON THE WIRE: the first transmission of a
    \* message must not carry an identifier under which the broker still holds an unacknowledged PUBLISH of this connection
    \* (the request that owned it may have been completed - wrongly - towards the application)
    \cup (IF known /\ e.type = "PUBLISH" /\ e.qos > 0 /\ earlier = {} /\ e.pid \in cr.infl
            THEN {"C08_b_IdReusedWhileUnacknowledged"} ELSE {})
    \* C02 / C03: a retransmission keeps its identifier and content
    \cup (IF ids # {} /\ e.pid # 0 /\ o.ops[Min(ids)].pid # 0 /\ o.ops[Min(ids)].pid # e.pid
            THEN {"C02_b_RetransmittedWithOtherId"} ELSE {})
    \cup (IF e.type = "PUBLISH" /\ \E x \in earlier : o.pkts[x].dig # e.dig THEN {"C03_c_RetransmissionDiffers"} ELSE {})
    \cup (IF e.type = "PUBLISH" /\ earlier = {} /\ e.dup = 1 THEN {"C03_d_DupOnFirstTransmission"} ELSE {})
    \cup (IF e.type = "PUBLISH" /\ e.qos > 0 /\ e.dup = 0 /\ \E x \in earlier :
                 o.pkts[x].w \in DOMAIN o.wr /\ o.wr[o.pkts[x].w].res = 1
            THEN {"C03_e_NoDupAfterSuccessfulWrite"} ELSE {})
    \* C03: after the client released the message (PUBREL written) it never publishes it again
    \cup (IF e.type = "PUBLISH" /\ e.qos = 2 /\ ids # {} /\ Outstanding(o, Min(ids)) /\ \E x \in DOMAIN o.pkts :
                 o.pkts[x].type = "PUBREL" /\ o.pkts[x].pid = e.pid /\ \E y \in earlier : y < x
            THEN {"C03_a_PublishAfterPubrel"} ELSE {})
    \cup (IF e.type = "PUBLISH" /\ ids # {} /\ Min(ids) \in o.relsd THEN {"C03_a_PublishAfterPubrecConsumed"} ELSE {})
    \* ... nor after it has read the PUBREC while the write that carried the PUBLISH succeeded (the request then
    \* finds the acknowledgement when it starts waiting; dropping it would make the client publish again)
    \cup (IF e.type = "PUBLISH" /\ ids # {} /\ Min(ids) \notin o.relsd /\ \E r \in o.recd :
                 r.id = Min(ids) /\ o.pkts[r.x].w \in DOMAIN o.wr /\ o.wr[o.pkts[r.x].w].res = 1
            THEN {"C03_a_PublishAfterPubrecRead"} ELSE {})
    \* C06: PUBLISH packets leave in initiation order
    \cup (IF known /\ e.type = "PUBLISH" /\ ids # {} /\ (e.qos > 0 \/ cr.rm = 65535) /\ \E x \in DOMAIN cr.ords :
                 /\ cr.ords[x].ord > o.ops[Min(ids)].ord
                 /\ (cr.rm = 65535 \/ cr.ords[x].qos > 0)
            THEN {"C06_a_PublishOutOfOrder"} ELSE {})
    \* C15: nothing on the wire for a request that exceeds the capabilities
    \cup (IF ids # {} /\ o.ops[Min(ids)].app # {} THEN {"C15_b_RejectedRequestOnWire"} ELSE {})
    \* C12: a PINGREQ is handed over no later than K after the CONNACK was read / the previous PINGREQ was written,
    \* unless a write that started before that deadline was still in progress (it is then handed over when that write ends)
    \cup (IF known /\ e.type = "PINGREQ" /\ KOf(o, cr) > 0
             /\ LET base == IF cr.pingBase >= 0 THEN cr.pingBase ELSE cr.tEst
                     dl == base + 1000 * KOf(o, cr)
                 IN e.t > dl /\ ~(cr.lastWriteEnd = e.t /\ cr.lastWriteStart <= dl)
            THEN {"C12_a_PingLate"} ELSE {})
    \* C12: no PINGREQ with keep-alive 0
    \cup (IF known /\ e.type = "PINGREQ" /\ (IF cr.ska >= 0 THEN cr.ska ELSE o.ka) = 0 THEN {"C12_c_PingWithKeepAliveZero"} ELSE {})

\* ---- at a packet received by the broker
BRecvClauses(o, e) ==
    LET c == e.c
        known == c \in DOMAIN o.conn
        cr == o.conn[c]
    IN
       (IF e.ok = 0 THEN {"C17_a_MalformedPacketOnWire"} ELSE {})
    \cup (IF known /\ e.type = "CONNECT" /\ e.cs # 0 THEN {"C10_a_CleanStartSet"} ELSE {})
    \cup (IF known /\ e.type = "CONNECT" /\ e.ka # o.ka THEN {"C10_a_KeepAliveDiffers"} ELSE {})
    \* C07: Receive Maximum
    \cup (IF known /\ e.type = "PUBLISH" /\ e.qos > 0 /\ Cardinality(cr.infl \cup {e.pid}) > cr.rm
            THEN {"C07_a_ReceiveMaximumExceeded"} ELSE {})
    \* C15: announced capabilities
    \cup (IF known /\ cr.cack = 1 /\ cr.maxpkt > 0 /\ e.len > cr.maxpkt THEN {"C15_d_PacketLargerThanMaximum"} ELSE {})
    \cup (IF known /\ e.type = "PUBLISH" /\ e.qos > cr.mqos THEN {"C15_d_QosAboveMaximum"} ELSE {})
    \cup (IF known /\ e.type = "PUBLISH" /\ e.retain = 1 /\ cr.ra = 0 THEN {"C15_d_RetainNotAvailable"} ELSE {})
    \cup (IF known /\ e.type = "PUBLISH" /\ e.alias # -1 /\ (e.alias = 0 \/ e.alias > cr.tam) THEN {"C15_d_TopicAliasAboveMaximum"} ELSE {})
    \cup (IF known /\ e.type = "SUBSCRIBE" /\ e.wild = 1 /\ cr.wa = 0 THEN {"C15_d_WildcardNotAvailable"} ELSE {})
    \cup (IF known /\ e.type = "SUBSCRIBE" /\ e.shared = 1 /\ cr.sha = 0 THEN {"C15_d_SharedNotAvailable"} ELSE {})
    \cup (IF known /\ e.type = "SUBSCRIBE" /\ e.subid = 1 /\ cr.sia = 0 THEN {"C15_d_SubscriptionIdNotAvailable"} ELSE {})
    \* C09: the DISCONNECT of async_disconnect carries what was asked
    \cup (IF e.type = "DISCONNECT" /\ o.disc.op # 0 /\ o.disc.doneT < 0 /\ c \in o.disc.on /\ e.rc # o.disc.rc
            THEN {"C09_a_DisconnectReasonDiffers"} ELSE {})
    \cup (IF e.type = "DISCONNECT" /\ o.disc.op # 0 /\ o.disc.doneT < 0 /\ c \in o.disc.on /\ e.rc = o.disc.rc /\ e.dig # o.disc.dig
             /\ ~(known /\ cr.maxpkt > 0 /\ o.disc.len > cr.maxpkt)
            THEN {"C09_a_DisconnectPropertiesDiffer"} ELSE {})
    \* C04: acknowledgements of the broker's publishes
    \cup (IF known /\ e.type = "PUBCOMP" /\ e.pid \notin cr.relOwed THEN {"C04_b_PubcompWithoutPubrel"} ELSE {})
    \cup (IF known /\ e.type \in {"PUBACK", "PUBREC"} /\ ~\E x \in DOMAIN cr.bpub :
                 cr.bpub[x].pid = e.pid /\ cr.bpub[x].qos = (IF e.type = "PUBACK" THEN 1 ELSE 2)
            THEN {"C04_a_AckForUnknownPublish"} ELSE {})

\* ---- at a write handed to the transport
WriteClauses(o, e) ==
    LET c == e.c IN
    \* C09: once async_disconnect was called and the write in progress ended, the next write is the DISCONNECT alone
       (IF o.disc.op # 0 /\ o.disc.doneT < 0 /\ c \notin o.disc.on /\ c \in DOMAIN o.conn /\ o.conn[c].cack = 1
             /\ e.t >= o.disc.t /\ e.pk # <<"DISCONNECT">>
             /\ ~\E w \in DOMAIN o.wr : o.wr[w].res = 0     \* (a write may have been in progress at the call)
            THEN {"C09_a_DisconnectNotNextOrNotAlone"} ELSE {})

\* ---- at a connection attempt
AttemptClauses(o, e) ==
    LET p == o.lastAtt IN
    \* C11: at most one attempt in progress
       (IF \E a \in DOMAIN o.att : o.att[a].tclose = -1 /\ ~(o.att[a].c # 0 /\ ConnOk(o, o.att[a].c))
            THEN {"C11_d_OverlappingConnectionAttempts"} ELSE {})
    \* C09: no connection attempt after async_disconnect completed
    \cup (IF o.disc.op # 0 /\ o.disc.doneT >= 0 /\ ~o.running THEN {"C09_e_AttemptAfterDisconnectCompleted"} ELSE {})

\* ---- when the client turns to a broker of its list (resolve = start of a try)
\* C10: after a failed try the next broker of the list follows, cyclically; a pause of 0.5..16.5 s
\* exactly when the list wrapped around.  Judged within one reconnection (previous try failed).
ResolveClauses(o, e) ==
    LET p == o.try
        prevFailed == p.host >= 0 /\ ~p.ok /\ ~o.terminal
        F == IF OpenAttempt(o) \/ p.failT < 0 THEN e.t ELSE p.failT
        wrap == e.host <= p.host
    IN (IF o.disc.op # 0 /\ o.disc.doneT >= 0 /\ ~o.running THEN {"C09_e_ResolveAfterDisconnectCompleted"} ELSE {})
    \cup (IF prevFailed /\ e.host # (p.host + 1) % o.hosts THEN {"C10_c_NotNextBroker"} ELSE {})
    \cup (IF prevFailed /\ ~wrap /\ e.t # F THEN {"C10_d_PauseWithoutWrapAround"} ELSE {})
    \cup (IF prevFailed /\ wrap /\ (e.t - F < 500 \/ e.t - F > 16500) THEN {"C10_d_WrapAroundPauseOutOfRange"} ELSE {})

\* ---- when a handshake stream is closed: a silent handshake is abandoned after 5 s
CloseClauses(o, e) ==
    IF e.a \in DOMAIN o.att /\ o.att[e.a].tclose = -1 /\ ~(o.att[e.a].c # 0 /\ ConnOk(o, o.att[e.a].c))
       /\ ~o.terminal /\ e.t - o.att[e.a].t > 5000
    THEN {"C10_c_HandshakeNotAbandonedAfter5s"} ELSE {}

\* ---- end of the cooperative suffix: every accepted request is done
QuiesceClauses(o, e) ==
    \* C11: after a long cooperative period a running client is connected (or connecting): every reconnect trigger was resolved
       (IF o.running /\ ~o.terminal /\ DOMAIN o.conn # {} /\ (\A c \in DOMAIN o.conn : o.conn[c].closed) /\ ~OpenAttempt(o)
             /\ \E id \in OpIds(o) : o.ops[id].kind \in ReqKinds /\ o.ops[id].done = 0
            THEN {"C11_b_ReconnectTriggerNeverResolved"} ELSE {})
    \cup (IF \E id \in OpIds(o) : o.ops[id].kind \in ReqKinds /\ ~CancelledByCaller(o, id) /\ ~o.ops[id].atTerminal
                                /\ o.ops[id].done = 0
            THEN {"C02_q_RequestNeverCompleted"} ELSE {})
    \cup (IF ~o.terminal /\ \E c \in DOMAIN o.conn : ~o.conn[c].closed /\ o.conn[c].cack = 1 /\ o.conn[c].bpub # << >>
            THEN {"C04_a_PublishNotAcknowledged"} ELSE {})
    \cup (IF ~o.terminal /\ \E c \in DOMAIN o.conn : ~o.conn[c].closed /\ o.conn[c].cack = 1 /\ o.conn[c].relOwed # {}
            THEN {"C04_c_PubrelNotAnswered"} ELSE {})
    \cup (IF ~o.terminal /\ o.owed > 0 /\ \E id \in OpIds(o) : o.ops[id].kind = "recv" /\ o.ops[id].done = 0
            THEN {"C13_a_SessionExpiredNotReported"} ELSE {})
    \* (an async_receive is still pending, so everything the client stored has been handed over)
    \cup (IF ~o.terminal /\ (\E id \in OpIds(o) : o.ops[id].kind = "recv" /\ o.ops[id].done = 0)
             /\ \E m \in o.q2done : Cardinality({x \in DOMAIN o.deliv : o.deliv[x].msg = m}) # 1
            THEN {"C04_e_Qos2NotDeliveredExactlyOnce"} ELSE {})
    \cup (IF ~o.terminal /\ (\E id \in OpIds(o) : o.ops[id].kind = "recv" /\ o.ops[id].done = 0)
             /\ \E m \in o.q1acked : ~\E x \in DOMAIN o.deliv : o.deliv[x].msg = m
            THEN {"C04_f_Qos1AcknowledgedButNotDelivered"} ELSE {})

\* ---- after cancel() / a finished async_disconnect / destruction: everything drained
DrainClauses(o, e) ==
    LET undoneBefore == {id \in OpIds(o) : o.ops[id].done = 0 /\ o.ops[id].ord <= o.termOrd}
        undoneAny    == {id \in OpIds(o) : o.ops[id].done = 0}
    IN (IF o.mustDrain /\ undoneBefore # {} THEN {"C05_c_OperationNotCompletedAfterCancel"} ELSE {})
    \cup (IF o.mustDrain /\ (e.timers # 0 \/ e.pending # 0) THEN {"C05_d_TimerOrIoLeftAfterCancel"} ELSE {})
    \cup (IF o.mustDrain /\ undoneAny = {} /\ e.stopped # 1 THEN {"C05_d_ContextStillHasWork"} ELSE {})

\* ---- when a read of the client ends
ReadClauses(o, e) ==
    IF e.c \notin DOMAIN o.conn THEN {} ELSE
    LET cr == o.conn[e.c]
        K == KOf(o, cr)
        silence == e.ec = "aborted" /\ ~cr.closed /\ cr.cack = 1     \* cancelled by the read timer, not by close()
    IN (IF silence /\ K = 0 THEN {"C12_c_TimedOutWithKeepAliveZero"} ELSE {})
    \cup (IF silence /\ K > 0 /\ e.t - e.t0 < 1500 * K THEN {"C12_b_AbandonedBefore1_5K"} ELSE {})
    \cup (IF cr.cack = 1 /\ K > 0 /\ e.nb = 0 /\ e.t - e.t0 > 1500 * K THEN {"C12_b_SilenceOutlasted1_5K"} ELSE {})

\* ---- when virtual time has advanced: a PINGREQ that is overdue
OverdueClauses(o, e) ==
    (IF o.disc.op # 0 /\ o.disc.doneT < 0 /\ e.t - o.disc.t > 5000 THEN {"C09_c_LaterThan5s"} ELSE {}) \cup
    IF \E c \in DOMAIN o.conn :
          LET cr == o.conn[c]
              base == IF cr.pingBase >= 0 THEN cr.pingBase ELSE cr.tEst
          IN /\ cr.cack = 1 /\ ~cr.closed /\ KOf(o, cr) > 0 /\ ~o.terminal /\ o.running
             /\ e.t > base + 1000 * KOf(o, cr)
             /\ (cr.pingT = << >> \/ Last(cr.pingT) < base)           \* none handed over since
             /\ ~\E w \in DOMAIN o.wr : o.wr[w].c = c /\ o.wr[w].res = 0   \* and no write in progress
    THEN {"C12_a_PingMissing"} ELSE {}

Viol(o, e) ==
    CASE e.e = "done"         -> DoneClauses(o, e)
      [] e.e = "c_read_end"   -> ReadClauses(o, e)
      [] e.e = "fire"         -> OverdueClauses(o, e)
      [] e.e = "c_pkt"        -> PktClauses(o, e)
      [] e.e = "b_recv"       -> BRecvClauses(o, e)
      [] e.e = "c_write"      -> WriteClauses(o, e)
      [] e.e = "attempt"      -> AttemptClauses(o, e)
      [] e.e = "stream_close" -> CloseClauses(o, e)
      [] e.e = "resolve"      -> ResolveClauses(o, e)
      [] e.e = "quiesce_end"  -> QuiesceClauses(o, e) \cup OverdueClauses(o, e)
      [] e.e = "drain"        -> DrainClauses(o, e) \cup OverdueClauses(o, e)
      [] e.e = "end"          -> DrainClauses([o EXCEPT !.terminal = TRUE, !.mustDrain = TRUE, !.termOrd = o.nops], e)
      \* an exception escaping the client, or a client that keeps itself busy without ever coming to rest: after hostile
      \* bytes that is C19; with a conformant broker it breaks whatever property is being checked (like a crash)
      [] e.e \in {"exception", "hang", "terminate"} -> IF o.hostile THEN {"C19_e_ExceptionOrHang"} ELSE {"C19_e_ExceptionOrHang", "CXX_x_ClientNeverComesToRest"}
      [] OTHER                -> {}

=============================================================================
