SPECIFICATION Spec
CONSTANTS
  NMsgs = 3
  QosOf <- Q_212
  MaxFaults = 2
  SessionLoss = TRUE
  LossyWrites = TRUE
INVARIANT Qos2AtMostOnce
INVARIANT CompletedIsDelivered
INVARIANT NoPubrelUnanswered
INVARIANT NothingStuck
VIEW NoHist
CHECK_DEADLOCK FALSE
