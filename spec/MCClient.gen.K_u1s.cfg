SPECIFICATION Spec
CONSTANTS
  NOps = 3
  KindOf <- K_u1s
  RMs = {1, 65535}
  MaxFaults = 1
  MaxCancels = 1
  RecRcs = {0}
  QuotaResetFirst = FALSE
  ResendGuard = TRUE
  Observe = FALSE
INVARIANT EmitScript
VIEW ViewEngine
CHECK_DEADLOCK FALSE
