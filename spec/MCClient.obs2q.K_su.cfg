SPECIFICATION Spec
CONSTANTS
  NOps = 2
  KindOf <- K_su
  RMs = {1}
  MaxFaults = 1
  MaxCancels = 0
  RecRcs = {0}
  QuotaResetFirst = FALSE
  ResendGuard = TRUE
  Observe = TRUE
INVARIANT NoViolation
INVARIANT TypeOK
INVARIANT DoneWhenQuiet
VIEW View
CHECK_DEADLOCK FALSE
