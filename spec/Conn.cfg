SPECIFICATION Spec
CONSTANTS Users = {"r", "w"} NHosts = 2 NEps = 2 MaxBreaks = 2 MaxFails = 4 MaxCalls = 4 StaleCheck = TRUE
INVARIANTS TypeOK RotationAndPauses MutexOK OneReplacementPerLoss NoReconnectWhileHealthy Recovers
CHECK_DEADLOCK FALSE
