SPECIFICATION Spec
CONSTANTS
  MaxConn = 5
  MaxSubs = 4
  DecideAtStart = TRUE OnlyClear = FALSE
INVARIANT ExactlyTheOwedReports
INVARIANT FlagFollowsGhost
CHECK_DEADLOCK FALSE
