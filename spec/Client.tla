------------------------------- MODULE Client -------------------------------
(***************************************************************************)
(* Implementation-shaped specification of the client's send engine:        *)
(*   async_sender  (queue, one gather-write at a time, Receive Maximum     *)
(*                  quota, resend with stable sort)                         *)
(*   replies       (waiters keyed by (code, id), fast replies)             *)
(*   publish_send_op / subscribe_op / unsubscribe_op phases, DUP, cancel   *)
(*   packet identifiers (least free id)                                    *)
(*   connection epochs: fault, reconnect, the read path and the write path *)
(*   both reporting one reconnect (try_again)                              *)
(* together with an environment: application, network, conformant broker.  *)
(*                                                                         *)
(* One action per handler body of the code; direct calls inside a handler  *)
(* are folded into the action.  Every action emits the SAME observable     *)
(* events the harness records from the real client, and folds them through *)
(* Observer: the invariant NoViolation is "no property clause is violated  *)
(* in any reachable state".                                                *)
(*                                                                         *)
(* Switches reproduce defects that were found with this model and repaired *)
(* in /repo by "fix:" commits (see known_findings.json):                   *)
(*   QuotaResetFirst = TRUE   the original order in async_sender::resend() *)
(*   ResendGuard     = FALSE  no guard against a second resend per stream  *)
(***************************************************************************)
EXTENDS Observer, SenderCore, Json

CONSTANTS
    NOps,            \* number of application requests
    KindOf,          \* <<"pub1","pub2",...>> kind of request i
    RMs,             \* set of Receive Maximum values the broker may announce (65535 = absent)
    MaxFaults,       \* bound on connection losses
    MaxCancels,      \* bound on per-operation cancellations
    RecRcs,          \* reason codes the broker may put into PUBREC
    QuotaResetFirst, \* see above
    ResendGuard,
    Observe          \* TRUE: fold every event through Observer (history in the state: small configurations);
                     \* FALSE: only the engine-level invariants below (large configurations)

Ops == 1..NOps
MAXLIM == MAXLIMIT

VARIABLES
    c,        \* the client engine (record, see CInit)
    net,      \* connection / network state
    brk,      \* broker state
    o,        \* observer state (Observer!ObsInit ...)
    bad,      \* property clauses violated so far
    hist      \* environment choices taken (scenario script), for model-guided testing

vars == <<c, net, brk, o, bad, hist>>

---------------------------------------------------------------------------
(* records *)

Req(op, pk, pid, thr, prio, serial, dup) ==
    [op |-> op, pk |-> pk, pid |-> pid, thr |-> thr, prio |-> prio, serial |-> serial, dup |-> dup, term |-> FALSE]

QosOf(op) == IF KindOf[op] = "pub0" THEN 0 ELSE IF KindOf[op] = "pub1" THEN 1 ELSE IF KindOf[op] = "pub2" THEN 2 ELSE 0
IsPub(op) == KindOf[op] \in {"pub0", "pub1", "pub2"}
MsgOf(op) == IF IsPub(op) THEN "m" \o ToString(op) ELSE ""
DigOf(op) == "d" \o ToString(op)
IsSub(op) == KindOf[op] \in {"sub", "unsub"}             \* subscribe_op / unsubscribe_op: same phases, own packet and reply codes
ReqPk(op) == IF IsPub(op) THEN "PUBLISH" ELSE IF KindOf[op] = "unsub" THEN "UNSUBSCRIBE" ELSE "SUBSCRIBE"
AckOf(pk) == IF pk = "SUBSCRIBE" THEN "SUBACK" ELSE "UNSUBACK"
SubPks == {"SUBSCRIBE", "UNSUBSCRIBE"}
SubAcks2 == {"SUBACK", "UNSUBACK"}

CInit == [
    phase   |-> [i \in Ops |-> "new"],   \* new | sent (write pending/queued) | wait (reply awaited) | rel | waitcomp | done
    pid     |-> [i \in Ops |-> 0],
    serial  |-> [i \in Ops |-> 0],
    dup     |-> [i \in Ops |-> 0],
    canc    |-> [i \in Ops |-> FALSE],
    wq      |-> << >>,                   \* _write_queue
    wip     |-> FALSE,                   \* _write_in_progress
    batch   |-> << >>,                   \* the gather-write in flight
    wconn   |-> 0,                       \* stream (connection id, 0 = not connected) the write in flight was issued on
    limit   |-> MAXLIM, quota |-> MAXLIM,
    lastSerial |-> 0,
    waiters |-> << >>,                   \* replies::_handlers  [code, pid, op]
    fast    |-> << >>,                   \* replies::_fast_replies [code, pid, rc]
    used    |-> {},                      \* packet ids in use
    resentAt |-> 0,
    res     |-> [i \in Ops |-> ""],      \* ghost: completion result
    word    |-> << >>,                   \* ghost: requests whose PUBLISH (QoS>0) was written on the current stream, in order
    ready   |-> << >>,                   \* posted continuations (fast-reply hand-over)
    w       |-> 0,                       \* write ids
    n       |-> 0,                       \* event sequence numbers
    ev      |-> << >>                    \* events emitted by the current action
]

Emit(cl, e) == [cl EXCEPT !.ev = Append(@, e @@ [n |-> cl.n + 1, t |-> 0]), !.n = @ + 1]

RECURSIVE FoldEv(_, _, _)
FoldEv(ob, b, evs) ==
    IF evs = << >> THEN [o |-> ob, bad |-> b]
    ELSE FoldEv(ObsStep(ob, Head(evs)), b \cup Viol(ob, Head(evs)), Tail(evs))

---------------------------------------------------------------------------
(* async_sender::do_write (async_sender.hpp) as a function of the engine state *)

PktEvent(conn, w, r) ==
    [e |-> "c_pkt", c |-> conn, w |-> w, type |-> r.pk, pid |-> r.pid,
     qos |-> IF r.pk = "PUBLISH" THEN QosOf(r.op) ELSE 0, dup |-> r.dup, rc |-> 0,
     msg |-> IF r.pk = "PUBLISH" THEN MsgOf(r.op) ELSE "",
     dig |-> IF r.pk \in ({"PUBLISH"} \cup SubPks) THEN DigOf(r.op) ELSE "p0", len |-> 10]

RECURSIVE EmitPkts(_, _, _, _)
EmitPkts(cl, conn, w, b) ==
    IF b = << >> THEN cl ELSE EmitPkts(Emit(cl, PktEvent(conn, w, Head(b))), conn, w, Tail(b))

\* conn: id of the stream the client writes to (the observer decides what that means)
DoWrite(cl, conn) ==
    IF cl.wip \/ cl.wq = << >> THEN cl
    ELSE LET tk == FormBatch(cl.wq, cl.quota, cl.limit)
         IN IF tk.b = << >> THEN cl
            ELSE LET w == cl.w + 1
                     pubs == SelectSeq(tk.b, LAMBDA r : r.pk = "PUBLISH" /\ QosOf(r.op) > 0)
                     c1 == [cl EXCEPT !.wip = TRUE, !.batch = tk.b, !.wq = tk.r, !.quota = tk.qt, !.wconn = conn,
                                      !.fast = << >>, !.w = w,          \* clear_fast_replies()
                                      !.word = IF conn = 0 THEN @ ELSE @ \o [i \in 1..Len(pubs) |-> pubs[i].op]]
                     c2 == Emit(c1, [e |-> "c_write", c |-> conn, w |-> w, nb |-> 1,
                                     pk |-> [i \in 1..Len(tk.b) |-> tk.b[i].pk]])
                 IN IF conn = 0 THEN c1      \* no connected stream: write_op fails without touching the transport
                    ELSE EmitPkts(c2, conn, w, tk.b)

Send(cl, conn, r) == DoWrite([cl EXCEPT !.wq = Append(@, r)], conn)

---------------------------------------------------------------------------
(* completion of a request: free_pid (+ throttled_op_done) and the handler *)

DoneEvent(op, ec, rc, pdig) ==
    [e |-> "done", op |-> op, kind |-> KindOf[op], ec |-> ec, rc |-> rc,
     codes |-> IF IsSub(op) /\ ec = "ok" THEN <<rc>> ELSE IF IsSub(op) THEN <<255>> ELSE << >>,
     pdig |-> pdig, inl |-> 0, msg |-> "", dig |-> ""]

Complete(cl, conn, op, ec, rc, pdig) ==
    LET c1 == [cl EXCEPT !.phase[op] = "done", !.used = @ \ {cl.pid[op]}, !.res[op] = ec]
        c2 == Emit(c1, DoneEvent(op, ec, rc, pdig))
    IN IF QosOf(op) > 0 /\ c2.limit # MAXLIM      \* throttled_op_done()
         THEN DoWrite([c2 EXCEPT !.quota = @ + 1], conn)
         ELSE c2

\* replies::async_wait_reply: consume a fast reply (hand-over is posted) or register a waiter
WaitReply(cl, code, op) ==
    LET pid == cl.pid[op]
        hit == {i \in DOMAIN cl.fast : cl.fast[i].code = code /\ cl.fast[i].pid = pid}
    IN IF hit = {}
         THEN [cl EXCEPT !.waiters = Append(@, [code |-> code, pid |-> pid, op |-> op])]
         ELSE LET i == Min(hit) IN
              [Emit(cl, [e |-> "h", k |-> "wait", a |-> IF code = "PUBREC" THEN 80 ELSE 0, b |-> pid, c |-> 1, d |-> 0])
                  EXCEPT !.fast = SubSeq(@, 1, i - 1) \o SubSeq(@, i + 1, Len(@)),
                         !.ready = Append(@, [op |-> op, code |-> code, rc |-> cl.fast[i].rc, pdig |-> cl.fast[i].pdig])]

\* the continuation that runs when a reply is handed to the operation
OnReply(cl, conn, op, code, rc, pdig) ==
    IF code \in ({"PUBACK"} \cup SubAcks2) THEN Complete(cl, conn, op, "ok", rc, pdig)
    ELSE IF code = "PUBREC" THEN
         IF rc >= 128 THEN Complete(cl, conn, op, "ok", rc, "p0")
         ELSE Send([cl EXCEPT !.phase[op] = "rel"], conn,
                   Req(op, "PUBREL", cl.pid[op], FALSE, TRUE, cl.serial[op], 0))
    ELSE Complete(cl, conn, op, "ok", rc, pdig)        \* PUBCOMP

\* continuation of one written request after a successful write
AfterWrite(cl, conn, r) ==
    IF r.pk = "PUBLISH" /\ QosOf(r.op) = 0 THEN
        Emit([cl EXCEPT !.phase[r.op] = "done", !.res[r.op] = "ok"], DoneEvent(r.op, "ok", 0, ""))
    ELSE IF r.pk = "PUBLISH" /\ QosOf(r.op) = 1 THEN WaitReply([cl EXCEPT !.phase[r.op] = "wait"], "PUBACK", r.op)
    ELSE IF r.pk = "PUBLISH" THEN WaitReply([cl EXCEPT !.phase[r.op] = "wait"], "PUBREC", r.op)
    ELSE IF r.pk = "PUBREL" THEN WaitReply([cl EXCEPT !.phase[r.op] = "waitcomp"], "PUBCOMP", r.op)
    ELSE WaitReply([cl EXCEPT !.phase[r.op] = "wait"], AckOf(r.pk), r.op)

RECURSIVE AfterWriteAll(_, _, _)
AfterWriteAll(cl, conn, b) ==
    IF b = << >> THEN cl ELSE AfterWriteAll(AfterWrite(cl, conn, Head(b)), conn, Tail(b))

---------------------------------------------------------------------------
(* resend: everything unanswered, then everything unwritten, is handed      *)
(* try_again; each operation re-queues itself (or completes if cancelled)   *)

\* one operation told try_again; wasWaiting: it came from a reply waiter (DUP for PUBLISH)
Requeue(cl, conn, op, pk, wasWaiting) ==
    IF pk = "PUBREL" THEN   \* send_pubrel(.., true): throttled + prioritized
        [cl EXCEPT !.wq = Append(@, Req(op, "PUBREL", cl.pid[op], TRUE, TRUE, cl.serial[op], 0)), !.phase[op] = "rel"]
    ELSE IF cl.canc[op] THEN Complete(cl, conn, op, "aborted", 255, "p0")
    ELSE LET d == IF wasWaiting /\ pk = "PUBLISH" THEN 1 ELSE cl.dup[op] IN
         [cl EXCEPT !.dup[op] = d, !.phase[op] = "sent",
                    !.wq = Append(@, Req(op, pk, cl.pid[op], IsPub(op) /\ QosOf(op) > 0, FALSE,
                                         IF IsPub(op) THEN cl.serial[op] ELSE 0, d))]

RECURSIVE RequeueWaiters(_, _, _)
RequeueWaiters(cl, conn, ws) ==
    IF ws = << >> THEN cl
    ELSE LET x == Head(ws)
             pk == IF x.code = "PUBCOMP" THEN "PUBREL" ELSE IF x.code = "SUBACK" THEN "SUBSCRIBE" ELSE IF x.code = "UNSUBACK" THEN "UNSUBSCRIBE" ELSE "PUBLISH"
         IN RequeueWaiters(Requeue(cl, conn, x.op, pk, TRUE), conn, Tail(ws))

RECURSIVE RequeueQueued(_, _, _)
RequeueQueued(cl, conn, q) ==
    IF q = << >> THEN cl
    ELSE RequeueQueued(Requeue(cl, conn, Head(q).op, Head(q).pk, FALSE), conn, Tail(q))

Resend(cl, conn, rm, epoch) ==
    IF cl.wip THEN cl
    ELSE IF ResendGuard /\ cl.resentAt = epoch THEN DoWrite(cl, conn)
    ELSE LET c0 == [cl EXCEPT !.wip = TRUE, !.resentAt = epoch]
             c1 == IF QuotaResetFirst THEN [c0 EXCEPT !.limit = rm, !.quota = rm] ELSE c0
             q  == c1.wq
             ws == c1.waiters
             c2 == RequeueWaiters([c1 EXCEPT !.wq = << >>, !.waiters = << >>], conn, ws)
             c3 == RequeueQueued(c2, conn, q)
             c4 == IF QuotaResetFirst THEN c3 ELSE [c3 EXCEPT !.limit = rm, !.quota = rm]
         IN DoWrite([c4 EXCEPT !.wq = StableSort(@), !.wip = FALSE], conn)

---------------------------------------------------------------------------
(* environment *)

NetInit == [conn |-> 0, up |-> FALSE, epoch |-> 1, rm |-> MAXLIM, delivered |-> FALSE,
            b2c |-> << >>, rdTrig |-> TRUE, faults |-> 0, cancels |-> 0]
LiveWrite == c.wip /\ net.up /\ c.wconn = net.conn      \* the write in flight is on the connected stream
DeadWriteInFlight == c.wip /\ ~(net.up /\ c.wconn = net.conn)
Cn == IF net.up THEN net.conn ELSE 0     \* the connected stream, if any
BrkInit == [obl |-> << >>, k |-> 0, ks |-> 0,
            infl |-> {},      \* ghost: ids of QoS>0 PUBLISH received on the current connection and not yet acknowledged
            acked |-> {}]     \* ghost: requests whose final acknowledgement the broker has sent

Init ==
    /\ c = CInit /\ net = NetInit /\ brk = BrkInit
    /\ LET f == FoldEv(ObsInit, {}, << [e |-> "cfg", dig |-> "cfg", ka |-> 0, hosts |-> 1, nep |-> 1, n |-> 0, t |-> 0],
                                       [e |-> "call", op |-> 0, kind |-> "run", dig |-> "", qos |-> 0, nt |-> 0, msg |-> "", n |-> 0, t |-> 0] >>)
       IN o = f.o /\ bad = f.bad
    /\ hist = << >>

\* When no request is outstanding the histories cannot matter any more (every clause relates events of
\* one exchange): forget them, so that behaviours that differ only in finished exchanges meet again.
Quiet(cl) == /\ \A op \in Ops : cl.phase[op] \in {"new", "done"}
             /\ cl.wq = << >> /\ ~cl.wip /\ cl.ready = << >> /\ cl.waiters = << >>
Forget(ob) == [ob EXCEPT !.recv = << >>, !.sent = << >>, !.pkts = << >>, !.used = {}, !.wr = EmptyFn]

\* commit an action: fold the emitted events through the observer
Commit(cl, step) ==
    LET f == IF Observe THEN FoldEv(o, bad, cl.ev) ELSE [o |-> o, bad |-> bad]
        q == Quiet(cl)
    IN
    /\ c' = [cl EXCEPT !.ev = << >>, !.n = IF q \/ ~Observe THEN 0 ELSE @, !.w = IF Observe THEN @ ELSE 0]
    /\ o' = IF q /\ Observe THEN Forget(f.o) ELSE f.o
    /\ bad' = f.bad
    /\ hist' = Append(hist, step)

CallEvent(op) ==
    [e |-> "call", op |-> op, kind |-> KindOf[op], dig |-> DigOf(op), qos |-> QosOf(op),
     nt |-> IF IsSub(op) THEN 1 ELSE 0, msg |-> MsgOf(op), len |-> 10, retain |-> 0, alias |-> -1,
     wild |-> 0, shared |-> 0, subid |-> 0, h_rm |-> 65535, h_mqos |-> 2, h_ra |-> 1, h_maxpkt |-> 0, h_tam |-> 0,
     h_wa |-> 1, h_sha |-> 1, h_sia |-> 1]

\* application initiates request op (in index order: initiation order = op number)
AppCall(op) ==
    /\ c.phase[op] = "new" /\ \A i \in Ops : i < op => c.phase[i] # "new"
    /\ LET pid == IF QosOf(op) > 0 \/ ~IsPub(op) THEN Min({p \in 1..(NOps + 1) : p \notin c.used}) ELSE 0
           ser == IF IsPub(op) THEN c.lastSerial + 1 ELSE 0
           c1 == Emit(c, CallEvent(op))
           c2 == [c1 EXCEPT !.pid[op] = pid, !.used = IF pid = 0 THEN @ ELSE @ \cup {pid},
                            !.serial[op] = ser, !.lastSerial = IF IsPub(op) THEN ser ELSE @, !.phase[op] = "sent"]
           c3 == Send(c2, Cn, Req(op, ReqPk(op), pid,
                                        IsPub(op) /\ QosOf(op) > 0, FALSE, ser, 0))
           c4 == Emit(c3, [e |-> "ret", op |-> op])
       IN Commit(c4, [op |-> "call", id |-> op])
    /\ UNCHANGED <<brk, net>>

AppCancel(op) ==
    /\ c.phase[op] \notin {"new", "done"} /\ ~c.canc[op] /\ net.cancels < MaxCancels /\ QosOf(op) > 0
    /\ Commit(Emit([c EXCEPT !.canc[op] = TRUE], [e |-> "cancel_op", op |-> op, type |-> "total"]), [op |-> "cancel_op", id |-> op])
    /\ net' = [net EXCEPT !.cancels = @ + 1]
    /\ UNCHANGED brk

\* the broker fully receives the write in flight
RecvEvent(k, conn, r) ==
    [e |-> "b_recv", c |-> conn, k |-> k, type |-> r.pk, ok |-> 1, pid |-> r.pid, rc |-> 0,
     dig |-> IF r.pk \in ({"PUBLISH"} \cup SubPks) THEN DigOf(r.op) ELSE "p0", len |-> 10, err |-> "",
     qos |-> IF r.pk = "PUBLISH" THEN QosOf(r.op) ELSE 0, dup |-> r.dup, retain |-> 0,
     msg |-> IF r.pk = "PUBLISH" THEN MsgOf(r.op) ELSE "", alias |-> -1,
     nt |-> 1, wild |-> 0, shared |-> 0, subid |-> 0]

Deliver ==
    /\ LiveWrite /\ ~net.delivered
    /\ LET F[i \in 0..Len(c.batch)] ==
              IF i = 0 THEN [cl |-> c, b |-> brk]
              ELSE LET p == F[i - 1]
                       r == c.batch[i]
                       k == p.b.k + 1
                       ack == IF r.pk = "PUBLISH" /\ QosOf(r.op) = 1 THEN "PUBACK"
                              ELSE IF r.pk = "PUBLISH" /\ QosOf(r.op) = 2 THEN "PUBREC"
                              ELSE IF r.pk = "PUBREL" THEN "PUBCOMP"
                              ELSE IF r.pk \in SubPks THEN AckOf(r.pk) ELSE ""
                   IN [cl |-> Emit(p.cl, RecvEvent(k, net.conn, r)),
                       b |-> [p.b EXCEPT !.k = k,
                                         !.infl = IF r.pk = "PUBLISH" /\ QosOf(r.op) > 0 THEN @ \cup {r.pid} ELSE @,
                                         !.obl = IF ack = "" THEN @ ELSE Append(@, [kind |-> ack, pid |-> r.pid, k |-> k, op |-> r.op])]]
           f == F[Len(c.batch)]
       IN Commit(f.cl, [op |-> "wdeliver"]) /\ brk' = f.b
    /\ net' = [net EXCEPT !.delivered = TRUE]

WriteOk ==
    /\ LiveWrite /\ net.delivered
    /\ LET c1 == Emit([c EXCEPT !.wip = FALSE], [e |-> "c_write_end", c |-> net.conn, w |-> c.w, nb |-> 1, ec |-> "ok"])
           c2 == AfterWriteAll([c1 EXCEPT !.batch = << >>], net.conn, c.batch)
           c3 == DoWrite(c2, net.conn)
       IN Commit(c3, [op |-> "wend", ec |-> "ok"])
    /\ net' = [net EXCEPT !.delivered = FALSE]
    /\ UNCHANGED brk

\* a posted fast-reply hand-over runs
RunReady ==
    /\ c.ready # << >>
    /\ LET r == Head(c.ready)
       IN Commit(OnReply([c EXCEPT !.ready = Tail(@)], net.conn, r.op, r.code, r.rc, r.pdig), [op |-> "step"])
    /\ UNCHANGED <<net, brk>>

\* the broker answers one of its obligations (any order)
BrokerAck(i) ==
    /\ net.up /\ i \in DOMAIN brk.obl
    /\ \E rc \in (IF brk.obl[i].kind = "PUBREC" THEN RecRcs ELSE {0}) :
        LET x == brk.obl[i]
            ks == brk.ks + 1
            pd == "a" \o ToString(ks)
            ev == [e |-> "b_send", c |-> net.conn, k |-> ks, type |-> x.kind, pid |-> x.pid, rc |-> rc, dig |-> pd,
                   codes |-> IF x.kind \in SubAcks2 THEN <<rc>> ELSE << >>, ans |-> x.k]
        IN /\ Commit(Emit(c, ev), [op |-> "ack", i |-> i - 1, rc |-> rc])
           /\ brk' = [brk EXCEPT !.ks = ks, !.obl = SubSeq(@, 1, i - 1) \o SubSeq(@, i + 1, Len(@)),
                                 !.infl = IF x.kind \in {"PUBACK", "PUBCOMP"} \/ (x.kind = "PUBREC" /\ rc >= 128) THEN @ \ {x.pid} ELSE @,
                                 !.acked = IF x.kind \in ({"PUBACK", "PUBCOMP"} \cup SubAcks2) \/ (x.kind = "PUBREC" /\ rc >= 128) THEN @ \cup {x.op} ELSE @]
           /\ net' = [net EXCEPT !.b2c = Append(@, [code |-> x.kind, pid |-> x.pid, rc |-> rc, pdig |-> pd])]

\* assemble_op hands one packet to replies::dispatch
ClientRead ==
    /\ net.up /\ net.b2c # << >>
    /\ LET p == Head(net.b2c)
           hit == {i \in DOMAIN c.waiters : c.waiters[i].code = p.code /\ c.waiters[i].pid = p.pid}
       IN IF hit = {}
            THEN Commit([c EXCEPT !.fast = Append(@, [code |-> p.code, pid |-> p.pid, rc |-> p.rc, pdig |-> p.pdig])], [op |-> "rdeliver"])
            ELSE LET i == Min(hit)
                     wtr == c.waiters[i]
                     c0 == Emit(c, [e |-> "h", k |-> "dispatch", a |-> IF p.code = "PUBREC" THEN 80 ELSE 0, b |-> p.pid, c |-> 1, d |-> 0])
                     c1 == [c0 EXCEPT !.waiters = SubSeq(@, 1, i - 1) \o SubSeq(@, i + 1, Len(@))]
                 IN Commit(OnReply(c1, net.conn, wtr.op, p.code, p.rc, p.pdig), [op |-> "rdeliver"])
    /\ net' = [net EXCEPT !.b2c = Tail(@)]
    /\ UNCHANGED brk

\* the connection is lost: the pending read fails, a write in flight fails
Fault ==
    /\ net.up /\ net.faults < MaxFaults
    /\ LET c1 == Emit(c, [e |-> "conn_end", c |-> net.conn, by |-> "fault"])
           c2 == IF LiveWrite THEN Emit(c1, [e |-> "c_write_end", c |-> net.conn, w |-> c.w, nb |-> 0, ec |-> "reset"]) ELSE c1
       IN Commit(c2, [op |-> "fault"])
    /\ net' = [net EXCEPT !.up = FALSE, !.b2c = << >>, !.rdTrig = TRUE, !.faults = @ + 1, !.delivered = FALSE]
    /\ brk' = [brk EXCEPT !.obl = << >>, !.infl = {}]

\* reconnect_op: CONNECT / CONNACK on a fresh stream, swapped in on success.  The path that held the
\* connection lock (who) gets try_again in the same handler: the read path runs update_session_state();
\* resend(), the write path re-inserts its failed batch in front and runs resend().  The other path's
\* trigger is answered later (stale trigger -> try_again as well).
Connect(who) ==
    /\ ~net.up
    /\ IF who = "read" THEN net.rdTrig ELSE c.wip
    /\ \E rm \in RMs :
        LET cid == net.conn + 1
            ep  == net.epoch + 1
            c1 == Emit(c,  [e |-> "attempt_end", a |-> cid, c |-> cid, host |-> 0, res |-> "ok"])
            c2 == Emit(c1, [e |-> "c_pkt", c |-> cid, w |-> 0, type |-> "CONNECT", pid |-> 0, qos |-> 0, dup |-> 0, rc |-> 0, msg |-> "", dig |-> "cfg", len |-> 10])
            c3 == Emit(c2, [e |-> "b_send", c |-> cid, k |-> brk.ks + 1, type |-> "CONNACK", pid |-> 0, rc |-> 0, dig |-> "p0", codes |-> << >>, ans |-> 0,
                            sp |-> 1, rm |-> rm, mqos |-> 2, ra |-> 1, maxpkt |-> 0, tam |-> 0, wa |-> 1, sha |-> 1, sia |-> 1, ska |-> -1])
            c4 == [(IF who = "read" THEN c3 ELSE [c3 EXCEPT !.wip = FALSE, !.wq = c.batch \o @, !.batch = << >>]) EXCEPT !.word = << >>]
        IN /\ Commit(Resend(c4, cid, rm, ep), [op |-> "connect", rm |-> rm, who |-> who])
           /\ net' = [net EXCEPT !.conn = cid, !.up = TRUE, !.epoch = ep, !.rm = rm, !.delivered = FALSE,
                                 !.rdTrig = IF who = "read" THEN FALSE ELSE @]
           /\ brk' = [brk EXCEPT !.ks = @ + 1]

\* read path, stale trigger: assemble_op gets try_again -> update_session_state(); resend()
ReadPathTryAgain ==
    /\ net.up /\ net.rdTrig
    /\ Commit(Resend(c, net.conn, net.rm, net.epoch), [op |-> "step"])
    /\ net' = [net EXCEPT !.rdTrig = FALSE]
    /\ UNCHANGED brk

\* write path, stale trigger: async_sender::operator() gets try_again -> re-insert the failed batch in front; resend()
WritePathTryAgain ==
    /\ net.up /\ DeadWriteInFlight
    /\ LET c1 == [c EXCEPT !.wip = FALSE, !.wq = c.batch \o @, !.batch = << >>]
       IN Commit(Resend(c1, net.conn, net.rm, net.epoch), [op |-> "step"])
    /\ UNCHANGED <<brk, net>>

\* A posted continuation (fast-reply hand-over) is already in the io_context queue: it runs before any
\* later network or application event (FIFO).  [Sched = "fifo" of DESIGN.md section 3.2]
Next ==
    \/ RunReady
    \/ /\ c.ready = << >>
       /\ \/ \E op \in Ops : AppCall(op) \/ AppCancel(op)
          \/ Deliver \/ WriteOk \/ ClientRead
          \/ \E i \in 1..(NOps + 1) : BrokerAck(i)
          \/ Fault \/ Connect("read") \/ Connect("write") \/ ReadPathTryAgain \/ WritePathTryAgain

Spec == Init /\ [][Next]_vars

\* ---- what TLC checks
NoViolation == bad = {}

\* every request is eventually done when nothing more can happen (no fault budget left is not required:
\* a terminal state of the model is a state where the environment has nothing left to do)
AllDone == \A op \in Ops : c.phase[op] = "done"
Terminal == ~ENABLED Next
DoneWhenQuiet == Terminal => AllDone

\* structural invariants of the engine (what the code relies on)
TypeOK ==
    /\ c.quota <= c.limit
    /\ \A i \in DOMAIN c.waiters : c.waiters[i].pid \in c.used
    /\ c.wip => c.batch # << >>

\* ---- engine-level formulation of the properties (no history needed)
Outst(op) == c.phase[op] \notin {"new", "done"}
InvReceiveMaximum == net.up => Cardinality(brk.infl) <= net.rm                                     \* C07
InvPublishOrder   == \A i, j \in DOMAIN c.word : i < j => c.word[i] < c.word[j]                    \* C06 (requests are initiated in index order)
InvTruthful       == \A op \in Ops : c.res[op] = "ok" /\ KindOf[op] # "pub0" => op \in brk.acked    \* C01 / C14
InvNoPublishAfterRelease ==                                                                         \* C03
    \A op \in Ops : c.phase[op] \in {"rel", "waitcomp"} =>
        ~\E i \in DOMAIN (c.wq \o c.batch) : (c.wq \o c.batch)[i].op = op /\ (c.wq \o c.batch)[i].pk = "PUBLISH"
InvPidUnique      == \A a, b \in Ops : a # b /\ Outst(a) /\ Outst(b) /\ c.pid[a] # 0 => c.pid[a] # c.pid[b]   \* C08
InvPidNonZero     == \A op \in Ops : Outst(op) /\ KindOf[op] # "pub0" => c.pid[op] # 0                 \* C08
InvAbortOnlyIfCancelled == \A op \in Ops : c.res[op] \notin {"", "ok"} => (c.res[op] = "aborted" /\ c.canc[op])   \* C02
InvBrokerStateReset == TRUE

\* model-guided testing: every quiescent state with all requests done prints the environment history that led to it;
\* tools/l3.py turns each line into a scenario script that is executed against the real client
EmitScript == (AllDone /\ Quiet(c)) => PrintT("SCRIPT " \o ToJson(hist))

\* the history of environment choices, hidden from the fingerprint when only reachability of bad states matters
View == <<c, net, brk, o, bad>>
ViewEngine == <<[c EXCEPT !.n = 0, !.w = 0], net, [brk EXCEPT !.k = 0, !.ks = 0, !.obl = [i \in DOMAIN @ |-> [@[i] EXCEPT !.k = 0]]]>>
=============================================================================
