----------------------------- MODULE TraceWire -----------------------------
(***************************************************************************)
(* Decides properties C17 and C18 on the result lines recorded by          *)
(* harness/vec_wire.cpp (file named by the environment variable TRACE),    *)
(* with the reference codec of module Wire.  One state per line; the       *)
(* post-condition demands that every line was consumed.  Every             *)
(* disagreement is printed as                                              *)
(*        VIOL <vector id> <clause> <detail>                               *)
(*                                                                         *)
(* C17 (dir = "c2s": the library ENCODED the fields of e.pkt into          *)
(* e.lib.bytes).  The bytes are parsed by Wire!Decode, the independent     *)
(* strict MQTT 5 decoder:                                                  *)
(*   C17_a_<reason>    the bytes are not a well-formed MQTT 5 packet:      *)
(*                     FixedHeaderFlags, RemainingLength, PropertyNot-     *)
(*                     Allowed, PropertyRepeated, VBINotMinimal, ...       *)
(*   C17_a_BytesDiffer the bytes are not Wire!Encode of what was decoded   *)
(*                     from them (same form, same property order)          *)
(*   C17_b_FieldsDiffer  the decoded fields are not the fields supplied    *)
(*   C17_b_PropertyUnsupported  a property of the vector cannot be given   *)
(*                     to the library at all                               *)
(* The library is free in the two things the standard leaves free: the     *)
(* order of properties with different identifiers, and which permitted     *)
(* form it writes.                                                         *)
(*                                                                         *)
(* C18 (dir = "s2c": e.bytes = Wire!Encode(e.pkt, e.form) were DECODED by  *)
(* the library into e.lib.pkt, encoded again by the library into           *)
(* e.lib.re.bytes and decoded once more into e.lib.re.pkt):                *)
(*   C18_a_DecodeFailed      the decoder rejected a well-formed packet     *)
(*   C18_a_FieldsDiffer      decoded fields # encoded fields               *)
(*   C18_b_RoundTrip         what the library encodes from its result is   *)
(*                           not a well-formed packet with the same        *)
(*                           contents (judged by Wire!Decode)              *)
(*   C18_b_RoundTripDecode   the library does not decode its own           *)
(*                           re-encoding to the same contents              *)
(*                                                                         *)
(* X_VectorMismatch: the line's reference bytes are not Wire!Encode of its *)
(* fields (stale vector cache or a damaged file) - an infrastructure       *)
(* failure, not a verdict.                                                 *)
(***************************************************************************)
EXTENDS Wire, TLC, Json, IOUtils

JsonTrace == ndJsonDeserialize(IOEnv.TRACE)

FieldNames == <<"type", "clean", "keepalive", "cid", "user", "pass", "will", "sp", "rc", "dup", "qos", "retain",
                "topic", "pid", "payload", "topics", "codes", "props">>
RECURSIVE JoinFrom(_, _, _)
JoinFrom(Sx, i, acc) ==
    IF i > Len(FieldNames) THEN acc
    ELSE IF FieldNames[i] \in Sx
         THEN JoinFrom(Sx, i + 1, IF acc = "" THEN FieldNames[i] ELSE acc \o "+" \o FieldNames[i])
         ELSE JoinFrom(Sx, i + 1, acc)
Join(Sx) == IF Sx = {} THEN "-" ELSE JoinFrom(Sx, 1, "")

V1(cond, clause, detail) == IF cond THEN {<<clause, detail>>} ELSE {}

C17(e) ==
    LET d == Decode(e.lib.bytes)
        diff == IF d.ok THEN DiffFields(d.pkt, e.pkt) ELSE {}
    IN  V1(~d.ok, "C17_a_" \o d.err, e.type)
        \cup V1(d.ok /\ Encode(d.pkt, d.form) # Canon(e.lib.bytes), "C17_a_BytesDiffer", e.type)
        \cup V1(d.ok /\ diff # {}, "C17_b_FieldsDiffer", e.type \o ":" \o Join(diff))
        \cup V1(e.lib.unsupported > 0, "C17_b_PropertyUnsupported", e.type)

C18(e) ==
    LET ok   == e.lib.ok
        diff == IF ok THEN DiffFields(e.lib.pkt, e.pkt) ELSE {}
        has  == ok /\ e.lib.re.has
        d    == IF has THEN Decode(e.lib.re.bytes) ELSE Bad("")
        rdiff == IF has /\ d.ok THEN DiffFields(d.pkt, e.pkt) ELSE {}
        ldiff == IF has /\ e.lib.re.ok THEN DiffFields(e.lib.re.pkt, e.pkt) ELSE {}
    IN  V1(~ok, "C18_a_DecodeFailed", e.type \o ":" \o e.form)
        \cup V1(ok /\ diff # {}, "C18_a_FieldsDiffer", e.type \o ":" \o Join(diff))
        \cup V1(has /\ ~d.ok, "C18_b_RoundTrip", e.type \o ":" \o d.err)
        \cup V1(has /\ d.ok /\ rdiff # {}, "C18_b_RoundTrip", e.type \o ":" \o Join(rdiff))
        \cup V1(has /\ ~e.lib.re.ok, "C18_b_RoundTripDecode", e.type \o ":failed")
        \cup V1(has /\ e.lib.re.ok /\ ldiff # {}, "C18_b_RoundTripDecode", e.type \o ":" \o Join(ldiff))

Viol(e) ==
    V1(Encode(e.pkt, e.form) # e.bytes, "X_VectorMismatch", e.type)
    \cup (IF e.dir = "c2s" THEN C17(e) ELSE C18(e))

(* statistics: TLC register 1 = lines on which the library wrote exactly    *)
(* the bytes of the reference's own encoding (c2s) / re-encoding (s2c)      *)
Identical(e) == IF e.dir = "c2s" THEN Canon(e.lib.bytes) = e.bytes
                ELSE e.lib.ok /\ e.lib.re.has /\ Canon(e.lib.re.bytes) = e.bytes

VARIABLES l

TraceInit == l = 1 /\ TLCSet(1, 0)

TraceNext ==
    /\ l <= Len(JsonTrace)
    /\ LET e == JsonTrace[l]
           v == Viol(e)
       IN  /\ \A x \in v : PrintT("VIOL " \o ToString(e.id) \o " " \o x[1] \o " " \o x[2])
           /\ IF Identical(e) THEN TLCSet(1, TLCGet(1) + 1) ELSE TRUE
    /\ l' = l + 1

TraceSpec == TraceInit /\ [][TraceNext]_l

TraceAccepted ==
    /\ PrintT(<<"WIRESTAT", Len(JsonTrace), TLCGet(1)>>)
    /\ \/ TLCGet("stats").diameter - 1 = Len(JsonTrace)
       \/ PrintT(<<"REJECTED", TLCGet("stats").diameter - 1, Len(JsonTrace)>>) /\ FALSE
=============================================================================
