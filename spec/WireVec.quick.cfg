CONSTANT Tier = "quick"
INIT Init
NEXT Next
