SPECIFICATION Spec
CONSTANTS
  NMsgs = 3
  QosOf <- Q_222
  MaxFaults = 2
  SessionLoss = TRUE
  ClearAfterRequeue = TRUE
  KeepOldWaiter = FALSE
  CancelOnPublish = TRUE
  SilentLoss = TRUE
  LossyWrites = FALSE
INVARIANT Qos2AtMostOnce
INVARIANT CompletedIsDelivered
INVARIANT OnlyOwnRelease
VIEW NoHist
CHECK_DEADLOCK FALSE
