SPECIFICATION Spec
CONSTANTS
  NOps = 3
  KindOf <- K_121
  RMs = {1, 65535}
  MaxFaults = 2
  MaxCancels = 0
  RecRcs = {0}
  QuotaResetFirst = FALSE
  ResendGuard = TRUE
  Observe = FALSE
INVARIANT EmitScript
VIEW ViewEngine
CHECK_DEADLOCK FALSE
