------------------------------ MODULE KeepAlive ------------------------------
(***************************************************************************)
(* Implementation-shaped, explicitly timed specification of the keep-alive *)
(* machinery (C12).  Time unit: half a second (so that 1.5 x K is exact).  *)
(*   ping_op          _ping_timer.expires_after(K) (never when K = 0);      *)
(*                    on expiry a PINGREQ is handed to the sender; when its *)
(*                    write has completed (ok or try_again) the timer is    *)
(*                    armed again; a CANCELLED wait is armed again with the *)
(*                    keep-alive negotiated at that moment                  *)
(*   client_service   update_session_state() - run once per established     *)
(*                    connection - cancels _ping_timer, i.e. restarts the   *)
(*                    interval with the new connection's keep-alive         *)
(*                    (Server Keep Alive of the CONNACK, else configured)   *)
(*   assemble_op /    every read is bounded by 1.5 x K (unbounded for 0);   *)
(*   read_op          a read that times out makes the client reconnect      *)
(*                                                                         *)
(* Rearm = FALSE is the seeded change c12 (the interval is not restarted    *)
(* when a connection is established): TLC then finds a PINGREQ later than   *)
(* the new connection's keep-alive allows.                                  *)
(***************************************************************************)
EXTENDS Integers, TLC

CONSTANTS
    Ks,        \* keep-alive values (seconds) a connection may negotiate, e.g. {0, 1, 2}
    Latency,   \* a write takes 0..Latency time units
    MaxTime,
    Rearm

Inf == 1000000000
\* the two rules of the design, shared with TraceKeepAlive.tla (U = time units per half second: 1 here, 500 ms there)
PingDeadline(t, k, U) == IF k = 0 THEN Inf ELSE t + 2 * k * U        \* ping_op::compute_wait_time
ReadBound(k, U) == 3 * k * U                                          \* assemble_op::compute_read_timeout (0: unbounded)
Negotiated(ska, ka) == IF ska >= 0 THEN ska ELSE ka                   \* client_service::negotiated_keep_alive
VARIABLES
    now,
    up, K,          \* connection established; its negotiated keep-alive (seconds)
    tconn,          \* when it was established
    pingDue,        \* deadline of _ping_timer (Inf: armed for "never")
    wr,             \* time at which the PINGREQ write in progress completes (Inf: none)
    lastPing,       \* when the last PINGREQ reached the wire on this connection (-1: none)
    readDue,        \* deadline of the pending read
    lastRx,         \* when the broker's last byte arrived
    early           \* ghost: a read was abandoned before 1.5 x K of silence

vars == <<now, up, K, tconn, pingDue, wr, lastPing, readDue, lastRx, early>>


Init == /\ now = 0 /\ up = FALSE /\ K \in Ks /\ tconn = 0 /\ pingDue = PingDeadline(0, K, 1) /\ wr = Inf /\ lastPing = -1
        /\ readDue = Inf /\ lastRx = 0 /\ early = FALSE

\* a connection is established (CONNACK read): update_session_state(), the read loop starts a bounded read
Connect(k) ==
    /\ ~up /\ up' = TRUE /\ K' = k /\ tconn' = now /\ lastPing' = -1 /\ lastRx' = now
    /\ pingDue' = IF Rearm \/ pingDue = Inf THEN PingDeadline(now, k, 1) ELSE pingDue
    /\ readDue' = IF k = 0 THEN Inf ELSE now + ReadBound(k, 1)
    /\ wr' = Inf
    /\ UNCHANGED <<now, early>>

\* _ping_timer expires: the PINGREQ is written (the write takes 0..Latency)
PingFires ==
    /\ pingDue = now /\ wr = Inf
    /\ pingDue' = Inf
    /\ IF up THEN \E d \in 0..Latency : wr' = now + d ELSE wr' = now       \* not connected: try_again at once
    /\ UNCHANGED <<now, up, K, tconn, lastPing, readDue, lastRx, early>>

\* the write completes: on_pingreq -> perform()
PingWritten ==
    /\ wr = now
    /\ wr' = Inf /\ lastPing' = IF up THEN now ELSE lastPing
    /\ pingDue' = PingDeadline(now, K, 1)
    /\ UNCHANGED <<now, up, K, tconn, readDue, lastRx, early>>

\* bytes from the broker: the pending read completes, the next one gets a fresh bound
Rx == /\ up /\ lastRx' = now /\ readDue' = IF K = 0 THEN Inf ELSE now + ReadBound(K, 1)
      /\ UNCHANGED <<now, up, K, tconn, pingDue, wr, lastPing, early>>

\* the read times out: reconnect
ReadTimeout ==
    /\ up /\ readDue = now
    /\ early' = (early \/ now - lastRx < 3 * K)
    /\ up' = FALSE /\ readDue' = Inf
    /\ UNCHANGED <<now, K, tconn, pingDue, wr, lastPing, lastRx>>

\* the network ends the connection
Lose == /\ up /\ up' = FALSE /\ readDue' = Inf
        /\ UNCHANGED <<now, K, tconn, pingDue, wr, lastPing, lastRx, early>>

\* time passes only when nothing is due
Tick == /\ now < MaxTime /\ pingDue # now /\ wr # now /\ (up => readDue # now)
        /\ now' = now + 1
        /\ UNCHANGED <<up, K, tconn, pingDue, wr, lastPing, readDue, lastRx, early>>

Next == (\E k \in Ks : Connect(k)) \/ PingFires \/ PingWritten \/ Rx \/ ReadTimeout \/ Lose \/ Tick
Spec == Init /\ [][Next]_vars

---------------------------------------------------------------------------
Ref == IF lastPing >= tconn THEN lastPing ELSE tconn
\* C12_a: a PINGREQ reaches the wire no later than K after the CONNACK / the previous PINGREQ (plus the write latency)
PingOnTime == up /\ K > 0 => now <= Ref + 2 * K + Latency
\* C12_b: the connection is abandoned after 1.5 x K of silence, never earlier
NeverEarly == ~early
SilenceBounded == up /\ K > 0 => now - lastRx <= 3 * K
\* C12_c: keep-alive 0 - no PINGREQ is scheduled, no read is bounded
Zero == up /\ K = 0 => readDue = Inf /\ pingDue = Inf /\ wr = Inf
=============================================================================
