------------------------------ MODULE MCClient ------------------------------
(* model-checking configurations of Client.tla: tuple-valued constants *)
EXTENDS Client
K_121 == <<"pub1", "pub2", "pub1">>
K_111 == <<"pub1", "pub1", "pub1">>
K_1s2 == <<"pub1", "sub", "pub2">>
K_2210 == <<"pub2", "pub2", "pub1", "pub0">>
K_0121 == <<"pub0", "pub1", "pub2", "pub1">>
K_12 == <<"pub1", "pub2">>
K_u1s == <<"unsub", "pub1", "sub">>
K_su == <<"sub", "unsub">>
K_u2 == <<"unsub", "pub2">>
=============================================================================
