SPECIFICATION Spec
CONSTANTS
  NMsgs = 3
  QosOf <- Q_122
  MaxFaults = 3
  SessionLoss = TRUE
  ClearAfterRequeue = TRUE
  KeepOldWaiter = FALSE
  CancelOnPublish = TRUE
  SilentLoss = FALSE
  LossyWrites = FALSE
INVARIANT EmitScript
VIEW NoHist
CHECK_DEADLOCK FALSE
