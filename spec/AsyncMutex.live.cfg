SPECIFICATION FairSpec
CONSTANT MaxW = 4
PROPERTY EveryWaiterCompleted
CHECK_DEADLOCK FALSE
