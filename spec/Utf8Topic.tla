----------------------------- MODULE Utf8Topic -----------------------------
(***************************************************************************)
(* Reference recogniser for property C16: "request validation accepts      *)
(* exactly the well-formed MQTT inputs".                                   *)
(*                                                                         *)
(* Written from the texts, not from the library:                           *)
(*   [U]  The Unicode Standard, ch. 3 sect. 3.9 (D92 UTF-8, Table 3-6 bit  *)
(*        distribution, Table 3-7 well-formed byte sequences), sect. 23.7  *)
(*        (the 66 noncharacters), and RFC 3629 sect. 3/4.                  *)
(*   [M]  OASIS MQTT Version 5.0: 1.5.4 (UTF-8 Encoded String), 1.5.7      *)
(*        (UTF-8 String Pair), 3.3.2.1 / 3.3.2.3.4 (Topic Name / Topic     *)
(*        Alias), 3.8.2.1.2 (Subscription Identifier), 4.7 (Topic Names    *)
(*        and Topic Filters), 4.8.2 (Shared Subscriptions).                *)
(*                                                                         *)
(* Everything here is a constant operator over byte sequences (sequences   *)
(* of 0..255) and integers.  The operators named ...Verdict/...Allowed at  *)
(* the end state what each validator of                                    *)
(* boost/mqtt5/detail/{utf8_mqtt,topic_validation}.hpp has to return.      *)
(***************************************************************************)
EXTENDS Integers, Sequences

(***************************************************************************)
(* 1. UTF-8 ([U] D92, Table 3-6).                                          *)
(*                                                                         *)
(*    scalar value                 1st       2nd       3rd       4th       *)
(*    00000000 0xxxxxxx            0xxxxxxx                                *)
(*    00000yyy yyxxxxxx            110yyyyy  10xxxxxx                      *)
(*    zzzzyyyy yyxxxxxx            1110zzzz  10yyyyyy  10xxxxxx            *)
(*    000uuuuu zzzzyyyy yyxxxxxx   11110uuu  10uuzzzz  10yyyyyy  10xxxxxx  *)
(*                                                                         *)
(* A byte sequence is well-formed iff it is a concatenation of such forms  *)
(* where every form is the SHORTEST one for its scalar value, the value is *)
(* not a surrogate (D800..DFFF) and is at most 10FFFF.  Any other byte     *)
(* (a continuation byte 10xxxxxx in lead position, the leads 11111xxx, a   *)
(* lead whose continuation bytes are missing or not of the form 10xxxxxx)  *)
(* makes the whole sequence ill-formed.                                    *)
(***************************************************************************)

IsContinuation(x) == x >= 128 /\ x <= 191          \* 10xxxxxx

\* number of bytes announced by a lead byte; 0: this byte cannot start a character
FormLength(x) ==
    IF x <= 127 THEN 1                              \* 0xxxxxxx
    ELSE IF x >= 192 /\ x <= 223 THEN 2             \* 110yyyyy
    ELSE IF x >= 224 /\ x <= 239 THEN 3             \* 1110zzzz
    ELSE IF x >= 240 /\ x <= 247 THEN 4             \* 11110uuu
    ELSE 0                                          \* 10xxxxxx, 11111xxx

\* smallest scalar value that needs a form of n bytes (shortest-form rule)
MinScalar == <<0, 128, 2048, 65536>>

IsSurrogate(c) == c >= 55296 /\ c <= 57343          \* D800..DFFF
MaxScalar == 1114111                                 \* 10FFFF

IllFormed == [ok |-> FALSE, cp |-> -1, len |-> 1]

\* the character that starts at position i of b (1 <= i <= Len(b))
DecodeAt(b, i) ==
    LET x == b[i]
        n == FormLength(x)
    IN  IF n = 0 \/ i + n - 1 > Len(b) THEN IllFormed
        ELSE IF \E k \in 1..(n - 1) : ~IsContinuation(b[i + k]) THEN IllFormed
        ELSE LET cp == CASE n = 1 -> x
                         [] n = 2 -> (x - 192) * 64 + (b[i + 1] - 128)
                         [] n = 3 -> (x - 224) * 4096 + (b[i + 1] - 128) * 64 + (b[i + 2] - 128)
                         [] n = 4 -> (x - 240) * 262144 + (b[i + 1] - 128) * 4096
                                     + (b[i + 2] - 128) * 64 + (b[i + 3] - 128)
             IN  IF cp < MinScalar[n] \/ IsSurrogate(cp) \/ cp > MaxScalar
                 THEN IllFormed
                 ELSE [ok |-> TRUE, cp |-> cp, len |-> n]

\* The code points of b from position i on.  An ill-formed rest is reported as the single
\* element -1 after the characters decoded so far (no attempt to resynchronise: one
\* ill-formed subsequence makes the whole string ill-formed).
RECURSIVE DecodeFrom(_, _)
DecodeFrom(b, i) ==
    IF i > Len(b) THEN <<>>
    ELSE LET d == DecodeAt(b, i)
         IN  IF d.ok THEN <<d.cp>> \o DecodeFrom(b, i + d.len) ELSE <<-1>>

CodePoints(b) == DecodeFrom(b, 1)

WellFormedCps(cps) == \A i \in 1..Len(cps) : cps[i] >= 0
WellFormedUtf8(b) == WellFormedCps(CodePoints(b))

(***************************************************************************)
(* The same language once more, as the table of [U] Table 3-7 (this is the *)
(* form in which the standard lists the well-formed sequences; it uses no  *)
(* arithmetic).  TraceUtf8 checks on every vector that both formulations   *)
(* agree, which guards the reference against its own slips.                *)
(*                                                                         *)
(*    U+0000..U+007F      00..7F                                           *)
(*    U+0080..U+07FF      C2..DF  80..BF                                   *)
(*    U+0800..U+0FFF      E0      A0..BF  80..BF                           *)
(*    U+1000..U+CFFF      E1..EC  80..BF  80..BF                           *)
(*    U+D000..U+D7FF      ED      80..9F  80..BF                           *)
(*    U+E000..U+FFFF      EE..EF  80..BF  80..BF                           *)
(*    U+10000..U+3FFFF    F0      90..BF  80..BF  80..BF                   *)
(*    U+40000..U+FFFFF    F1..F3  80..BF  80..BF  80..BF                   *)
(*    U+100000..U+10FFFF  F4      80..8F  80..BF  80..BF                   *)
(***************************************************************************)
Table37Length(b, i) ==
    LET x == b[i]
        At(k) == IF i + k <= Len(b) THEN b[i + k] ELSE -1
        In(v, lo, hi) == v >= lo /\ v <= hi
    IN  IF In(x, 0, 127) THEN 1
        ELSE IF In(x, 194, 223) /\ In(At(1), 128, 191) THEN 2
        ELSE IF x = 224 /\ In(At(1), 160, 191) /\ In(At(2), 128, 191) THEN 3
        ELSE IF In(x, 225, 236) /\ In(At(1), 128, 191) /\ In(At(2), 128, 191) THEN 3
        ELSE IF x = 237 /\ In(At(1), 128, 159) /\ In(At(2), 128, 191) THEN 3
        ELSE IF In(x, 238, 239) /\ In(At(1), 128, 191) /\ In(At(2), 128, 191) THEN 3
        ELSE IF x = 240 /\ In(At(1), 144, 191) /\ In(At(2), 128, 191) /\ In(At(3), 128, 191) THEN 4
        ELSE IF In(x, 241, 243) /\ In(At(1), 128, 191) /\ In(At(2), 128, 191) /\ In(At(3), 128, 191) THEN 4
        ELSE IF x = 244 /\ In(At(1), 128, 143) /\ In(At(2), 128, 191) /\ In(At(3), 128, 191) THEN 4
        ELSE 0

RECURSIVE Table37From(_, _)
Table37From(b, i) ==
    IF i > Len(b) THEN TRUE
    ELSE LET n == Table37Length(b, i) IN n > 0 /\ Table37From(b, i + n)

WellFormedTable37(b) == Table37From(b, 1)

(***************************************************************************)
(* 2. MQTT UTF-8 Encoded String ([M] 1.5.4).                               *)
(*                                                                         *)
(*  - well-formed UTF-8, no surrogates          [MQTT-1.5.4-1] (MUST)      *)
(*  - no U+0000                                 [MQTT-1.5.4-2] (MUST)      *)
(*  - U+0001..U+001F, U+007F..U+009F and the Unicode noncharacters:        *)
(*    "SHOULD NOT" be included, a receiver MAY treat them as malformed.    *)
(*    The standard leaves a choice here.  Property C16 and the library's   *)
(*    documentation fix the strict reading (a client never emits them),    *)
(*    which is the reading the library implements; encoded here.           *)
(*  - U+FEFF (EF BB BF) is an ordinary character wherever it appears       *)
(*                                              [MQTT-1.5.4-3]             *)
(*  - the length prefix is a Two Byte Integer: at most 65535 BYTES.        *)
(*                                                                         *)
(* Noncharacters ([U] 23.7): U+FDD0..U+FDEF and the last two code points   *)
(* of each of the 17 planes, U+nFFFE and U+nFFFF, n = 0..16 (66 in all).   *)
(***************************************************************************)
IsControl(c)      == (c >= 0 /\ c <= 31) \/ (c >= 127 /\ c <= 159)    \* includes U+0000
IsNoncharacter(c) == (c >= 64976 /\ c <= 65007) \/ (c % 65536) >= 65534
MqttCharAllowed(c) == c >= 0 /\ ~IsControl(c) /\ ~IsNoncharacter(c)

MaxStringBytes == 65535

\* cps: the code points (CodePoints) of the string; n: its length in BYTES.
\* (The pair (cps, n) instead of the bytes themselves lets TraceUtf8 judge a 65536-byte
\* string without building a 65536-element sequence, see RunLemma there.)
StringOK(cps, n) ==
    /\ n <= MaxStringBytes
    /\ \A i \in 1..Len(cps) : MqttCharAllowed(cps[i])      \* -1 (ill-formed) is not allowed

MqttStringValid(b) == StringOK(CodePoints(b), Len(b))

\* UTF-8 String Pair ([M] 1.5.7), the User Property: both halves are UTF-8 Encoded Strings
MqttStringPairValid(k, v) == MqttStringValid(k) /\ MqttStringValid(v)

(***************************************************************************)
(* 3. Topic Names and Topic Filters ([M] 4.7).                             *)
(*                                                                         *)
(*  - at least one character long                [MQTT-4.7.3-1]            *)
(*  - no U+0000                                  [MQTT-4.7.3-2] (by 2.)    *)
(*  - UTF-8 Encoded Strings, at most 65535 bytes [MQTT-4.7.3-3] (by 2.)    *)
(*  - '#' "MUST be specified either on its own or following a topic level  *)
(*    separator. In either case it MUST be the last character specified    *)
(*    in the Topic Filter"                       [MQTT-4.7.1-1]            *)
(*  - '+' "can be used at any level ... Where it is used, it MUST occupy   *)
(*    an entire level of the filter"             [MQTT-4.7.1-2]            *)
(*  - "The wildcard characters ... MUST NOT be used within a Topic Name"   *)
(*                                               [MQTT-4.7.0-1],           *)
(*    [MQTT-3.3.2-2] for PUBLISH, [MQTT-3.3.2-14] for the Response Topic.  *)
(*  - a leading '$', leading/trailing/adjacent '/' (empty levels) and      *)
(*    spaces are all permitted (4.7.2, 4.7.3).                             *)
(*  - PUBLISH with a Topic Alias may carry a zero length Topic Name        *)
(*    ([M] 3.3.2.3.4); without one the Topic Name must be non-empty.       *)
(***************************************************************************)
Hash   == 35    \* '#'
Plus   == 43    \* '+'
Slash  == 47    \* '/'

HasWildcard(cps) == \E i \in 1..Len(cps) : cps[i] = Hash \/ cps[i] = Plus

WildcardPlacementOK(cps) ==
    \A i \in 1..Len(cps) :
        /\ cps[i] = Hash => /\ i = Len(cps)                          \* last character
                            /\ (i = 1 \/ cps[i - 1] = Slash)         \* alone or after '/'
        /\ cps[i] = Plus => /\ (i = 1 \/ cps[i - 1] = Slash)         \* whole level:
                            /\ (i = Len(cps) \/ cps[i + 1] = Slash)  \* bounded by '/' or the ends

TopicNameOK(cps, n)      == n >= 1 /\ StringOK(cps, n) /\ ~HasWildcard(cps)
TopicAliasNameOK(cps, n) ==           StringOK(cps, n) /\ ~HasWildcard(cps)   \* may be empty
TopicFilterOK(cps, n)    == n >= 1 /\ StringOK(cps, n) /\ WildcardPlacementOK(cps)

(***************************************************************************)
(* 4. Shared Subscriptions ([M] 4.8.2):  $share/{ShareName}/{filter}       *)
(*                                                                         *)
(*  - "MUST start with $share/ and MUST contain a ShareName that is at     *)
(*    least one character long"                  [MQTT-4.8.2-1]            *)
(*  - "The ShareName MUST NOT contain the characters "/", "+" or "#", but  *)
(*    MUST be followed by a "/" character. This "/" character MUST be      *)
(*    followed by a Topic Filter"                [MQTT-4.8.2-2]            *)
(*  - the rest "has the same syntax and semantics as a Topic Filter in a   *)
(*    non-shared subscription", hence is non-empty by [MQTT-4.7.3-1].      *)
(*  The whole string is one UTF-8 Encoded String (at most 65535 bytes).    *)
(***************************************************************************)
SharePrefix == <<36, 115, 104, 97, 114, 101, 47>>     \* "$share/"

HasSharePrefix(cps) == Len(cps) >= 7 /\ SubSeq(cps, 1, 7) = SharePrefix

\* positions k of the '/' that ends a well-formed ShareName (at most one such k exists)
ShareNameEnds(cps) ==
    {k \in 9..Len(cps) : /\ cps[k] = Slash
                         /\ \A j \in 8..(k - 1) : cps[j] # Slash /\ cps[j] # Plus /\ cps[j] # Hash}

FilterPart(cps, k) == SubSeq(cps, k + 1, Len(cps))

\* as subscribed with wildcards permitted
SharedFilterOK(cps, n) ==
    /\ StringOK(cps, n)
    /\ HasSharePrefix(cps)
    /\ \E k \in ShareNameEnds(cps) : LET f == FilterPart(cps, k)
                                     IN  Len(f) >= 1 /\ WildcardPlacementOK(f)

\* as subscribed at a server that announced Wildcard Subscription Available = 0
SharedFilterNoWildcardOK(cps, n) ==
    /\ StringOK(cps, n)
    /\ HasSharePrefix(cps)
    /\ \E k \in ShareNameEnds(cps) : LET f == FilterPart(cps, k)
                                     IN  Len(f) >= 1 /\ ~HasWildcard(f)

(***************************************************************************)
(* 5. Numeric ranges.                                                      *)
(*  - Subscription Identifier: Variable Byte Integer, "can have the value  *)
(*    of 1 to 268,435,455 ... Protocol Error if ... has a value of 0"      *)
(*    ([M] 3.8.2.1.2).                                                     *)
(*  - Topic Alias: Two Byte Integer, "A Topic Alias of 0 is not permitted" *)
(*    [MQTT-3.3.2-8]; the upper bound is the peer's Topic Alias Maximum    *)
(*    (property C15, not judged here).                                     *)
(***************************************************************************)
MinSubscriptionId == 1
MaxSubscriptionId == 268435455
SubscriptionIdOK(v) == v >= MinSubscriptionId /\ v <= MaxSubscriptionId
TopicAliasOK(v)     == v >= 1 /\ v <= 65535

(***************************************************************************)
(* 6. What the library's validators have to return.                        *)
(*                                                                         *)
(* The validators return validation_result = valid | has_wildcard_character*)
(* | invalid, written "valid" | "wildcard" | "invalid" here.  The contract *)
(* of each is fixed by what its callers do with the three values:          *)
(*                                                                         *)
(*  validate_mqtt_utf8 (content type, reason string, user property halves  *)
(*      via is_valid_string_pair, payload when Payload Format Indicator=1):*)
(*      callers test "== valid"; it never yields "wildcard" ('#','+' are   *)
(*      ordinary characters of a string).  valid <=> MqttStringValid.      *)
(*                                                                         *)
(*  validate_topic_name                                                    *)
(*      publish (topic, response topic): "== valid" accepts, anything else *)
(*      is rejected with one error (invalid_topic / malformed_packet).     *)
(*      subscribe when the server has no wildcard support: valid accepts,  *)
(*      "wildcard" -> wildcard_subscription_not_available, "invalid" ->    *)
(*      invalid_topic.  So: "valid" <=> TopicNameOK, exactly.  A           *)
(*      well-formed FILTER that uses wildcards must give "wildcard" (the   *)
(*      request is fine, the server cannot serve it).  For a string that   *)
(*      is not even a filter but contains '#'/'+' ("sport#", "a+\x01",     *)
(*      ill-formed UTF-8 next to a '+') MQTT does not say which of the two *)
(*      rejections is due; both are tolerated (the library reports the     *)
(*      first offending character).  Without '#'/'+': "invalid".           *)
(*                                                                         *)
(*  validate_topic_alias_name: publish with a Topic Alias, "== valid"      *)
(*      only.  As validate_topic_name but the empty string is valid; which *)
(*      non-valid value is returned is not observable: any.                *)
(*                                                                         *)
(*  validate_topic_filter: subscribe treats everything but "invalid" as    *)
(*      acceptance, unsubscribe treats everything but "valid" as           *)
(*      rejection.  So it must be two-valued: "valid" <=> TopicFilterOK,   *)
(*      otherwise "invalid"; "wildcard" would be accepted by one caller    *)
(*      and rejected by the other.                                         *)
(*      (unsubscribe applies it to "$share/..." strings too and thereby    *)
(*      accepts "$share/x"; whether UNSUBSCRIBE must re-check the shared   *)
(*      form is not stated by MQTT - not flagged.)                         *)
(*                                                                         *)
(*  validate_shared_topic_filter(s, true): as validate_topic_filter,       *)
(*      "valid" <=> SharedFilterOK, otherwise "invalid".                   *)
(*  validate_shared_topic_filter(s, false): as validate_topic_name:        *)
(*      "valid" <=> SharedFilterNoWildcardOK; a well-formed shared filter  *)
(*      with wildcards -> "wildcard"; other strings containing '#'/'+' ->  *)
(*      "wildcard" or "invalid"; else "invalid".                           *)
(*                                                                         *)
(* ...Verdict is the canonical answer, ...Allowed the set of answers the   *)
(* contract tolerates (Verdict \in Allowed; they differ only for strings   *)
(* that are rejected either way).  'b' is needed besides (cps, n) only to  *)
(* look for the bytes '#'/'+' in strings that are not well-formed.         *)
(***************************************************************************)
HasWildcardByte(b) == \E i \in 1..Len(b) : b[i] = Hash \/ b[i] = Plus

Utf8VerdictC(cps, n) == StringOK(cps, n)                  \* BOOLEAN: validate_mqtt_utf8 == valid

TopicNameVerdictC(cps, n) ==
    IF TopicNameOK(cps, n) THEN "valid"
    ELSE IF n >= 1 /\ StringOK(cps, n) THEN "wildcard" ELSE "invalid"
TopicNameAllowedC(b, cps, n) ==
    IF TopicNameOK(cps, n) THEN {"valid"}
    ELSE IF TopicFilterOK(cps, n) THEN {"wildcard"}
    ELSE IF HasWildcardByte(b) THEN {"wildcard", "invalid"}
    ELSE {"invalid"}

TopicAliasNameVerdictC(cps, n) ==
    IF TopicAliasNameOK(cps, n) THEN "valid"
    ELSE IF StringOK(cps, n) THEN "wildcard" ELSE "invalid"
TopicAliasNameAllowedC(b, cps, n) ==
    IF TopicAliasNameOK(cps, n) THEN {"valid"} ELSE {"wildcard", "invalid"}

TopicFilterVerdictC(cps, n) == IF TopicFilterOK(cps, n) THEN "valid" ELSE "invalid"
TopicFilterAllowedC(b, cps, n) == {TopicFilterVerdictC(cps, n)}

SharedFilterVerdictC(cps, n) == IF SharedFilterOK(cps, n) THEN "valid" ELSE "invalid"
SharedFilterAllowedC(b, cps, n) == {SharedFilterVerdictC(cps, n)}

SharedFilterNoWildcardVerdictC(cps, n) ==
    IF SharedFilterNoWildcardOK(cps, n) THEN "valid"
    ELSE IF SharedFilterOK(cps, n) THEN "wildcard"
    ELSE IF /\ StringOK(cps, n) /\ HasSharePrefix(cps)
            /\ \E k \in ShareNameEnds(cps) : Len(FilterPart(cps, k)) >= 1
         THEN "wildcard"             \* "$share/g/sport#": well-formed up to a misplaced wildcard
    ELSE "invalid"
SharedFilterNoWildcardAllowedC(b, cps, n) ==
    IF SharedFilterNoWildcardOK(cps, n) THEN {"valid"}
    ELSE IF SharedFilterOK(cps, n) THEN {"wildcard"}
    ELSE IF HasWildcardByte(b) THEN {"wildcard", "invalid"}
    ELSE {"invalid"}

\* the same on plain byte sequences
Utf8Verdict(b)                   == Utf8VerdictC(CodePoints(b), Len(b))
TopicNameVerdict(b)              == TopicNameVerdictC(CodePoints(b), Len(b))
TopicAliasNameVerdict(b)         == TopicAliasNameVerdictC(CodePoints(b), Len(b))
TopicFilterVerdict(b)            == TopicFilterVerdictC(CodePoints(b), Len(b))
SharedFilterVerdict(b)           == SharedFilterVerdictC(CodePoints(b), Len(b))
SharedFilterNoWildcardVerdict(b) == SharedFilterNoWildcardVerdictC(CodePoints(b), Len(b))
=============================================================================
