SPECIFICATION Spec
CONSTANTS Users = {"r", "w"} NHosts = 2 NEps = 1 MaxBreaks = 2 MaxFails = 2 MaxCalls = 2 StaleCheck = FALSE
INVARIANTS OneReplacementPerLoss NoReconnectWhileHealthy
CHECK_DEADLOCK FALSE
