-------------------------------- MODULE Wire --------------------------------
(***************************************************************************)
(* Reference codec for MQTT Version 5.0 (OASIS Standard, 7 March 2019).    *)
(*                                                                         *)
(* Transcribed from the text of the standard, NOT from the library under   *)
(* verification.  Section numbers in the comments are those of the         *)
(* standard.  The module is pure (constant level): it defines              *)
(*                                                                         *)
(*   Encode(pkt, form)  packet record  ->  byte string                     *)
(*   Decode(bytes)      byte string    ->  [ok, pkt, form] or [ok, err]    *)
(*   SamePacket(a, b)   equality of contents (order of distinct property   *)
(*                      identifiers is not significant, everything else is)*)
(*                                                                         *)
(* for all fifteen control packet types.  Decode is strict: it accepts     *)
(* exactly the byte strings that are well-formed MQTT 5 control packets    *)
(* (it is the "independent MQTT 5 decoder" of property C17), and for every *)
(* accepted b,  Encode(Decode(b).pkt, Decode(b).form) = b.                 *)
(*                                                                         *)
(* BYTE STRINGS.  TLC cannot afford 65535-element sequences, so a byte     *)
(* string is a sequence of runs <<b, n>> (byte b repeated n >= 1 times).   *)
(* A byte string is canonical when adjacent runs have different bytes; two *)
(* byte strings denote the same bytes iff their canonical forms are equal. *)
(* Strings inside packet records (topics, payloads, ...) are byte strings  *)
(* of the same shape.  Four Byte Integers do not fit TLC's 32-bit integers *)
(* and are pairs <<high 16 bits, low 16 bits>>.                            *)
(*                                                                         *)
(* PACKET RECORDS (0/1 for flags; optional parts are sequences of length   *)
(* zero or one; props is a sequence of [id |-> identifier, v |-> value]    *)
(* in wire order):                                                         *)
(*   CONNECT     [type, clean, keepalive, props, cid, will, user, pass]    *)
(*               will = << >> or <<[qos, retain, props, topic, payload]>>  *)
(*   CONNACK     [type, sp, rc, props]                                     *)
(*   PUBLISH     [type, dup, qos, retain, topic, pid, props, payload]      *)
(*               (pid = 0 iff qos = 0)                                     *)
(*   PUBACK PUBREC PUBREL PUBCOMP   [type, pid, rc, props]                 *)
(*   SUBSCRIBE   [type, pid, props, topics]                                *)
(*               topics = sequence of [filter, qos, nl, rap, rh]           *)
(*   SUBACK UNSUBACK  [type, pid, props, codes]                            *)
(*   UNSUBSCRIBE [type, pid, props, topics]   topics = sequence of strings *)
(*   PINGREQ PINGRESP [type]                                               *)
(*   DISCONNECT AUTH  [type, rc, props]                                    *)
(* Property values: Byte, Two Byte Integer, Variable Byte Integer: a       *)
(* number; Four Byte Integer: <<hi, lo>>; UTF-8 String / Binary Data: a    *)
(* byte string; UTF-8 String Pair: <<name, value>>.                        *)
(*                                                                         *)
(* FORMS.  form says which of the representations the standard permits is  *)
(* used for the tail of PUBACK/PUBREC/PUBREL/PUBCOMP/DISCONNECT/AUTH:      *)
(*   "full"     Reason Code and Property Length present                    *)
(*   "noprops"  Reason Code present, Property Length omitted (no props)    *)
(*   "short"    both omitted (Reason Code 0x00 and no properties)          *)
(* Every other packet type has the single form "full".                     *)
(*                                                                         *)
(* Out of scope: validity of the UTF-8 inside strings (property C16) and   *)
(* rules that need the connection context (e.g. Topic Alias <= Topic Alias *)
(* Maximum).  Strings are opaque byte strings here.                        *)
(***************************************************************************)
EXTENDS Naturals, Sequences

-----------------------------------------------------------------------------
(***************************************************************************)
(* 0.  Byte strings                                                        *)
(***************************************************************************)
Run(b, n)  == IF n = 0 THEN << >> ELSE << <<b, n>> >>
Bytes(seq) == [i \in 1..Len(seq) |-> <<seq[i], 1>>]

RECURSIVE BLenFrom(_, _)
BLenFrom(s, i) == IF i > Len(s) THEN 0 ELSE s[i][2] + BLenFrom(s, i + 1)
BLen(s) == BLenFrom(s, 1)                       \* number of bytes denoted

RECURSIVE CanonFrom(_, _, _)
CanonFrom(s, i, acc) ==
    IF i > Len(s) THEN acc
    ELSE LET r == s[i]
             n == Len(acc)
         IN  IF r[2] = 0 THEN CanonFrom(s, i + 1, acc)
             ELSE IF n > 0 /\ acc[n][1] = r[1]
                  THEN CanonFrom(s, i + 1, [acc EXCEPT ![n] = <<r[1], acc[n][2] + r[2]>>])
                  ELSE CanonFrom(s, i + 1, Append(acc, r))
Canon(s) == CanonFrom(s, 1, << >>)

IsCanon(s) == /\ \A i \in 1..Len(s) : s[i][1] \in 0..255 /\ s[i][2] >= 1
              /\ \A i \in 1..(Len(s) - 1) : s[i][1] # s[i + 1][1]

RECURSIVE FlatFrom(_, _)                        \* plain byte sequence (short strings only)
FlatFrom(s, i) == IF i > Len(s) THEN << >>
                  ELSE [k \in 1..s[i][2] |-> s[i][1]] \o FlatFrom(s, i + 1)
Flat(s) == FlatFrom(s, 1)

-----------------------------------------------------------------------------
(***************************************************************************)
(* 1.  Data representation (section 1.5)                                   *)
(***************************************************************************)
U8(v)  == Bytes(<<v>>)                                          \* 1.5.1 (one byte)
U16(v) == Bytes(<<v \div 256, v % 256>>)                        \* 1.5.2 big-endian
U32(w) == U16(w[1]) \o U16(w[2])                                \* 1.5.3 big-endian, w = <<hi16, lo16>>

(* 1.5.5 Variable Byte Integer: seven data bits per byte, least significant *)
(* group first, bit 7 = "more bytes follow"; at most four bytes; the        *)
(* minimum number of bytes MUST be used [MQTT-1.5.5-1].                     *)
VBIMax == 268435455
RECURSIVE VBIBytes(_)
VBIBytes(v) == IF v < 128 THEN <<v>> ELSE <<128 + (v % 128)>> \o VBIBytes(v \div 128)
VBI(v)    == Bytes(VBIBytes(v))
VBILen(v) == IF v < 128 THEN 1 ELSE IF v < 16384 THEN 2 ELSE IF v < 2097152 THEN 3 ELSE 4

(* 1.5.4 UTF-8 Encoded String and 1.5.6 Binary Data: Two Byte Integer length *)
(* followed by that many bytes.  1.5.7 UTF-8 String Pair: two strings.       *)
StrMax == 65535
Str(s) == U16(BLen(s)) \o s
StrPair(k, v) == Str(k) \o Str(v)

-----------------------------------------------------------------------------
(***************************************************************************)
(* 2.  Control packet types and fixed header (sections 2.1.2, 2.1.3)       *)
(***************************************************************************)
TypeNames == <<"CONNECT", "CONNACK", "PUBLISH", "PUBACK", "PUBREC", "PUBREL", "PUBCOMP",
               "SUBSCRIBE", "SUBACK", "UNSUBSCRIBE", "UNSUBACK", "PINGREQ", "PINGRESP",
               "DISCONNECT", "AUTH">>
TypeNo(t) == CHOOSE i \in 1..15 : TypeNames[i] = t

Acks == {"PUBACK", "PUBREC", "PUBREL", "PUBCOMP"}

(* Table 2-2: flag bits of the fixed header.  PUBLISH: DUP(3) QoS(2-1)       *)
(* RETAIN(0); PUBREL, SUBSCRIBE, UNSUBSCRIBE: 0010; all others: 0000.        *)
FixedFlags(t) == IF t \in {"PUBREL", "SUBSCRIBE", "UNSUBSCRIBE"} THEN 2 ELSE 0

-----------------------------------------------------------------------------
(***************************************************************************)
(* 3.  Properties (section 2.2.2, Table 2-4)                               *)
(*     "WILL" stands for the Will Properties of the CONNECT payload.       *)
(***************************************************************************)
AckLike == {"CONNACK", "PUBACK", "PUBREC", "PUBREL", "PUBCOMP", "SUBACK", "UNSUBACK", "DISCONNECT", "AUTH"}
AllWithProps == {"CONNECT", "CONNACK", "PUBLISH", "WILL", "PUBACK", "PUBREC", "PUBREL", "PUBCOMP",
                 "SUBSCRIBE", "SUBACK", "UNSUBSCRIBE", "UNSUBACK", "DISCONNECT", "AUTH"}

PropTable == {
  [id |->  1, name |-> "Payload Format Indicator",          type |-> "byte", in |-> {"PUBLISH", "WILL"}],
  [id |->  2, name |-> "Message Expiry Interval",           type |-> "u32",  in |-> {"PUBLISH", "WILL"}],
  [id |->  3, name |-> "Content Type",                      type |-> "utf8", in |-> {"PUBLISH", "WILL"}],
  [id |->  8, name |-> "Response Topic",                    type |-> "utf8", in |-> {"PUBLISH", "WILL"}],
  [id |->  9, name |-> "Correlation Data",                  type |-> "bin",  in |-> {"PUBLISH", "WILL"}],
  [id |-> 11, name |-> "Subscription Identifier",           type |-> "vbi",  in |-> {"PUBLISH", "SUBSCRIBE"}],
  [id |-> 17, name |-> "Session Expiry Interval",           type |-> "u32",  in |-> {"CONNECT", "CONNACK", "DISCONNECT"}],
  [id |-> 18, name |-> "Assigned Client Identifier",        type |-> "utf8", in |-> {"CONNACK"}],
  [id |-> 19, name |-> "Server Keep Alive",                 type |-> "u16",  in |-> {"CONNACK"}],
  [id |-> 21, name |-> "Authentication Method",             type |-> "utf8", in |-> {"CONNECT", "CONNACK", "AUTH"}],
  [id |-> 22, name |-> "Authentication Data",               type |-> "bin",  in |-> {"CONNECT", "CONNACK", "AUTH"}],
  [id |-> 23, name |-> "Request Problem Information",       type |-> "byte", in |-> {"CONNECT"}],
  [id |-> 24, name |-> "Will Delay Interval",               type |-> "u32",  in |-> {"WILL"}],
  [id |-> 25, name |-> "Request Response Information",      type |-> "byte", in |-> {"CONNECT"}],
  [id |-> 26, name |-> "Response Information",              type |-> "utf8", in |-> {"CONNACK"}],
  [id |-> 28, name |-> "Server Reference",                  type |-> "utf8", in |-> {"CONNACK", "DISCONNECT"}],
  [id |-> 31, name |-> "Reason String",                     type |-> "utf8", in |-> AckLike],
  [id |-> 33, name |-> "Receive Maximum",                   type |-> "u16",  in |-> {"CONNECT", "CONNACK"}],
  [id |-> 34, name |-> "Topic Alias Maximum",               type |-> "u16",  in |-> {"CONNECT", "CONNACK"}],
  [id |-> 35, name |-> "Topic Alias",                       type |-> "u16",  in |-> {"PUBLISH"}],
  [id |-> 36, name |-> "Maximum QoS",                       type |-> "byte", in |-> {"CONNACK"}],
  [id |-> 37, name |-> "Retain Available",                  type |-> "byte", in |-> {"CONNACK"}],
  [id |-> 38, name |-> "User Property",                     type |-> "pair", in |-> AllWithProps],
  [id |-> 39, name |-> "Maximum Packet Size",               type |-> "u32",  in |-> {"CONNECT", "CONNACK"}],
  [id |-> 40, name |-> "Wildcard Subscription Available",   type |-> "byte", in |-> {"CONNACK"}],
  [id |-> 41, name |-> "Subscription Identifier Available", type |-> "byte", in |-> {"CONNACK"}],
  [id |-> 42, name |-> "Shared Subscription Available",     type |-> "byte", in |-> {"CONNACK"}] }

PropIds     == {d.id : d \in PropTable}
PropDef(id) == CHOOSE d \in PropTable : d.id = id
PropType(id) == PropDef(id).type
PropsOf(t)  == {d.id : d \in {x \in PropTable : t \in x.in}}        \* identifiers allowed in t

(* "It is a Protocol Error to include the <property> more than once" holds  *)
(* for every property except: User Property "is allowed to appear multiple  *)
(* times" (every packet), and Subscription Identifier, of which "multiple   *)
(* Subscription Identifiers will be included if the publication is the      *)
(* result of a match to more than one subscription" (3.3.2.3.8, PUBLISH     *)
(* only; in SUBSCRIBE more than one is a Protocol Error, 3.8.2.1.2).        *)
Repeatable(id, t) == id = 38 \/ (id = 11 /\ t = "PUBLISH")

(* Value constraints stated with the property definitions.                  *)
PropValueOK(id, v) ==
    CASE id \in {1, 23, 25, 36, 37, 40, 41, 42} -> v \in {0, 1}    \* 3.3.2.3.2, 3.1.2.11.7, 3.1.2.11.6, 3.2.2.3.4, .5, .11, .12, .13
      [] id = 33 -> v # 0                                            \* Receive Maximum 0 is a Protocol Error
      [] id = 39 -> v # <<0, 0>>                                     \* Maximum Packet Size 0 is a Protocol Error
      [] id = 35 -> v # 0                                            \* Topic Alias 0 is not permitted [MQTT-3.3.2-8]
      [] id = 11 -> v >= 1 /\ v <= VBIMax                            \* 1 .. 268,435,455; 0 is a Protocol Error
      [] id = 8  -> v # << >>                                        \* a Topic Name is at least one character [MQTT-4.7.3-1]
      [] OTHER   -> TRUE

EncValue(type, v) ==
    CASE type = "byte" -> U8(v)
      [] type = "u16"  -> U16(v)
      [] type = "u32"  -> U32(v)
      [] type = "vbi"  -> VBI(v)
      [] type = "utf8" -> Str(v)
      [] type = "bin"  -> Str(v)
      [] type = "pair" -> StrPair(v[1], v[2])

(* 2.2.2.2: a Property is an Identifier (a Variable Byte Integer) followed   *)
(* by its value.  2.2.2.1: Property Length is a Variable Byte Integer that   *)
(* does not count its own bytes; "there is no significance in the order of   *)
(* Properties with different Identifiers".                                   *)
EncProp(p) == VBI(p.id) \o EncValue(PropType(p.id), p.v)
RECURSIVE EncPropSeq(_, _)
EncPropSeq(ps, i) == IF i > Len(ps) THEN << >> ELSE EncProp(ps[i]) \o EncPropSeq(ps, i + 1)
PropsBody(ps) == EncPropSeq(ps, 1)
EncProps(ps)  == LET body == PropsBody(ps) IN VBI(BLen(body)) \o body

-----------------------------------------------------------------------------
(***************************************************************************)
(* 4.  Reason Codes allowed per packet type (Table 2-6 and the packet      *)
(*     sections)                                                           *)
(***************************************************************************)
ReasonCodes(t) ==
    CASE t = "CONNACK"    -> {0, 128, 129, 130, 131, 132, 133, 134, 135, 136, 137, 138, 140, 144, 149, 151,
                              153, 154, 155, 156, 157, 159}
      [] t \in {"PUBACK", "PUBREC"} -> {0, 16, 128, 131, 135, 144, 145, 151, 153}
      [] t \in {"PUBREL", "PUBCOMP"} -> {0, 146}
      [] t = "SUBACK"     -> {0, 1, 2, 128, 131, 135, 143, 145, 151, 158, 161, 162}
      [] t = "UNSUBACK"   -> {0, 17, 128, 131, 135, 143, 145}
      [] t = "DISCONNECT" -> {0, 4, 128, 129, 130, 131, 135, 137, 139, 141, 142, 143, 144, 147, 148, 149,
                              150, 151, 152, 153, 154, 155, 156, 157, 158, 159, 160, 161, 162}
      [] t = "AUTH"       -> {0, 24, 25}
      [] OTHER            -> {}

-----------------------------------------------------------------------------
(***************************************************************************)
(* 5.  Encoding of the fifteen control packets (section 3)                 *)
(***************************************************************************)
RECURSIVE Cat(_)
Cat(ss) == IF ss = << >> THEN << >> ELSE Head(ss) \o Cat(Tail(ss))

Opt(o, Enc(_)) == IF o = << >> THEN << >> ELSE Enc(o[1])        \* optional part

(* 3.1.2.3 Connect Flags: 7 User Name, 6 Password, 5 Will Retain, 4-3 Will   *)
(* QoS, 2 Will Flag, 1 Clean Start, 0 Reserved (MUST be 0).                  *)
ConnectFlags(p) ==
      (IF p.user # << >> THEN 128 ELSE 0)
    + (IF p.pass # << >> THEN 64 ELSE 0)
    + (IF p.will # << >> THEN 32 * p.will[1].retain + 8 * p.will[1].qos + 4 ELSE 0)
    + 2 * p.clean

(* 3.8.3.1 Subscription Options: 1-0 Maximum QoS, 2 No Local, 3 Retain As    *)
(* Published, 5-4 Retain Handling, 7-6 reserved (MUST be 0).                 *)
SubOptions(s) == 16 * s.rh + 8 * s.rap + 4 * s.nl + s.qos

EncWill(w)   == EncProps(w.props) \o Str(w.topic) \o Str(w.payload)              \* 3.1.3.2 - 3.1.3.4
EncFilter(s) == Str(s.filter) \o U8(SubOptions(s))                                \* 3.8.3

(* Permitted forms.  3.4.2.1 (and 3.5.2.1, 3.6.2.1, 3.7.2.1): "The Reason    *)
(* Code and Property Length can be omitted if the Reason Code is 0x00 and    *)
(* there are no Properties.  In this case the PUBACK has a Remaining Length  *)
(* of 2."  3.4.2.2.1: "If the Remaining Length is less than 4 there is no    *)
(* Property Length and the value of 0 is used."  3.14.2.1 / 3.14.2.2.1 say   *)
(* the same for DISCONNECT with Remaining Length 0 and "less than 2".  For   *)
(* AUTH 3.15.2.1 permits Remaining Length 0, but 3.15.2.2.1 has no "less     *)
(* than 2" sentence: AUTH has no "noprops" form.                             *)
HasForms(t) == t \in Acks \cup {"DISCONNECT", "AUTH"}
FormOK(p, form) ==
    \/ form = "full"
    \/ form = "noprops" /\ HasForms(p.type) /\ p.type # "AUTH" /\ p.props = << >>
    \/ form = "short"   /\ HasForms(p.type) /\ p.props = << >> /\ p.rc = 0
Forms(p) == {f \in {"full", "noprops", "short"} : FormOK(p, f)}

Tail3(p, form) ==                                   \* Reason Code and Properties
    CASE form = "full"    -> U8(p.rc) \o EncProps(p.props)
      [] form = "noprops" -> U8(p.rc)
      [] form = "short"   -> << >>

Body(p, form) ==
    CASE p.type = "CONNECT" ->                                              \* 3.1.2, 3.1.3
            Str(Bytes(<<77, 81, 84, 84>>)) \o U8(5) \o U8(ConnectFlags(p)) \o U16(p.keepalive)
            \o EncProps(p.props)
            \o Str(p.cid) \o Opt(p.will, EncWill) \o Opt(p.user, Str) \o Opt(p.pass, Str)
      [] p.type = "CONNACK" ->                                              \* 3.2.2
            U8(p.sp) \o U8(p.rc) \o EncProps(p.props)
      [] p.type = "PUBLISH" ->                                              \* 3.3.2, 3.3.3
            Str(p.topic) \o (IF p.qos > 0 THEN U16(p.pid) ELSE << >>) \o EncProps(p.props) \o p.payload
      [] p.type \in Acks ->                                                 \* 3.4.2 - 3.7.2
            U16(p.pid) \o Tail3(p, form)
      [] p.type = "SUBSCRIBE" ->                                            \* 3.8.2, 3.8.3
            U16(p.pid) \o EncProps(p.props) \o Cat([i \in 1..Len(p.topics) |-> EncFilter(p.topics[i])])
      [] p.type = "UNSUBSCRIBE" ->                                          \* 3.10.2, 3.10.3
            U16(p.pid) \o EncProps(p.props) \o Cat([i \in 1..Len(p.topics) |-> Str(p.topics[i])])
      [] p.type \in {"SUBACK", "UNSUBACK"} ->                               \* 3.9.2, 3.9.3, 3.11.2, 3.11.3
            U16(p.pid) \o EncProps(p.props) \o Bytes(p.codes)
      [] p.type \in {"PINGREQ", "PINGRESP"} -> << >>                        \* 3.12, 3.13
      [] p.type \in {"DISCONNECT", "AUTH"} ->                               \* 3.14.2, 3.15.2
            Tail3(p, form)

HeaderFlags(p) == IF p.type = "PUBLISH" THEN 8 * p.dup + 2 * p.qos + p.retain ELSE FixedFlags(p.type)

(* 2.1.1: byte 1 = type (bits 7-4) and flags (bits 3-0); then the Remaining  *)
(* Length (2.1.4), a Variable Byte Integer counting the bytes that follow.   *)
Encode(p, form) ==
    LET body == Body(p, form)
    IN  Canon(U8(16 * TypeNo(p.type) + HeaderFlags(p)) \o VBI(BLen(body)) \o body)

RemainingLength(p, form) == BLen(Body(p, form))
PropertyLength(ps)       == BLen(PropsBody(ps))

-----------------------------------------------------------------------------
(***************************************************************************)
(* 6.  Well-formedness of a packet record (what a sender may put into a    *)
(*     packet; used to keep the enumerated vectors admissible and by       *)
(*     Decode to reject protocol errors visible in a single packet)        *)
(***************************************************************************)
PropsOK(ps, t) ==
    /\ \A i \in 1..Len(ps) : /\ ps[i].id \in PropsOf(t)
                             /\ PropValueOK(ps[i].id, ps[i].v)
    /\ \A i, j \in 1..Len(ps) : (i < j /\ ps[i].id = ps[j].id) => Repeatable(ps[i].id, t)
    /\ (\E i \in 1..Len(ps) : ps[i].id = 22) => (\E i \in 1..Len(ps) : ps[i].id = 21)   \* 3.1.2.11.10, 3.2.2.3.18, 3.15.2.2.3

HasProp(ps, id) == \E i \in 1..Len(ps) : ps[i].id = id

PacketOK(p) ==
    CASE p.type = "CONNECT" ->
            /\ PropsOK(p.props, "CONNECT")
            /\ p.will # << >> => /\ PropsOK(p.will[1].props, "WILL")
                                 /\ p.will[1].qos \in 0..2                       \* [MQTT-3.1.2-12]
                                 /\ p.will[1].topic # << >>
      [] p.type = "CONNACK" ->
            /\ PropsOK(p.props, "CONNACK")
            /\ p.rc \in ReasonCodes("CONNACK")
            /\ p.rc # 0 => p.sp = 0                                              \* [MQTT-3.2.2-6]
      [] p.type = "PUBLISH" ->
            /\ PropsOK(p.props, "PUBLISH")
            /\ p.qos \in 0..2                                                    \* [MQTT-3.3.1-4]
            /\ p.qos = 0 => p.dup = 0 /\ p.pid = 0                               \* [MQTT-3.3.1-2], [MQTT-2.2.1-2]
            /\ p.qos > 0 => p.pid # 0                                            \* [MQTT-2.2.1-3]
            /\ p.topic = << >> => HasProp(p.props, 35)                           \* 3.3.2.1, 3.3.2.3.4
      [] p.type \in Acks ->
            /\ PropsOK(p.props, p.type) /\ p.pid # 0 /\ p.rc \in ReasonCodes(p.type)
      [] p.type = "SUBSCRIBE" ->
            /\ PropsOK(p.props, "SUBSCRIBE") /\ p.pid # 0
            /\ Len(p.topics) >= 1                                                \* [MQTT-3.8.3-2]
            /\ \A i \in 1..Len(p.topics) : /\ p.topics[i].filter # << >>
                                           /\ p.topics[i].qos \in 0..2 /\ p.topics[i].rh \in 0..2   \* [MQTT-3.8.3-5], 3.8.3.1
      [] p.type = "UNSUBSCRIBE" ->
            /\ PropsOK(p.props, "UNSUBSCRIBE") /\ p.pid # 0
            /\ Len(p.topics) >= 1                                                \* [MQTT-3.10.3-2]
            /\ \A i \in 1..Len(p.topics) : p.topics[i] # << >>
      [] p.type \in {"SUBACK", "UNSUBACK"} ->
            /\ PropsOK(p.props, p.type) /\ p.pid # 0
            /\ Len(p.codes) >= 1
            /\ \A i \in 1..Len(p.codes) : p.codes[i] \in ReasonCodes(p.type)
      [] p.type \in {"PINGREQ", "PINGRESP"} -> TRUE
      [] p.type = "DISCONNECT" ->
            /\ PropsOK(p.props, "DISCONNECT") /\ p.rc \in ReasonCodes("DISCONNECT")
      [] p.type = "AUTH" ->
            /\ PropsOK(p.props, "AUTH") /\ p.rc \in ReasonCodes("AUTH")
            \* "It is a Protocol Error to omit the Authentication Method" (3.15.2.2.2); only the
            \* explicitly sanctioned empty form (Remaining Length 0) goes without it
            /\ (p.props = << >> /\ p.rc = 0) \/ HasProp(p.props, 21)

-----------------------------------------------------------------------------
(***************************************************************************)
(* 7.  Decoding.  A reader takes a byte string and returns                 *)
(*     [ok |-> TRUE, v |-> value, r |-> rest]  or  [ok |-> FALSE, err].    *)
(***************************************************************************)
Yes(v, r) == [ok |-> TRUE, v |-> v, r |-> r, err |-> ""]
No(e)     == [ok |-> FALSE, v |-> << >>, r |-> << >>, err |-> e]

RECURSIVE TakeFrom(_, _, _)
TakeFrom(s, n, acc) ==                              \* the first n bytes and the rest
    IF n = 0 THEN Yes(acc, s)
    ELSE IF s = << >> THEN No("Truncated")
    ELSE LET h == Head(s)
         IN  IF h[2] <= n THEN TakeFrom(Tail(s), n - h[2], Append(acc, h))
             ELSE Yes(Append(acc, <<h[1], n>>), << <<h[1], h[2] - n>> >> \o Tail(s))
RdBytes(s, n) == TakeFrom(s, n, << >>)

RdU8(s)  == LET t == RdBytes(s, 1) IN IF t.ok THEN Yes(t.v[1][1], t.r) ELSE t
RdU16(s) == LET t == RdBytes(s, 2) IN IF t.ok THEN LET f == Flat(t.v) IN Yes(256 * f[1] + f[2], t.r) ELSE t
RdU32(s) == LET t == RdBytes(s, 4)
            IN  IF t.ok THEN LET f == Flat(t.v) IN Yes(<<256 * f[1] + f[2], 256 * f[3] + f[4]>>, t.r) ELSE t

RECURSIVE RdVBIFrom(_, _, _, _)
RdVBIFrom(s, k, mult, acc) ==                       \* k bytes consumed so far
    LET t == RdU8(s)
    IN  IF ~t.ok THEN t
        ELSE LET val == acc + (t.v % 128) * mult
             IN  IF t.v < 128
                 THEN IF k > 0 /\ t.v = 0 THEN No("VBINotMinimal") ELSE Yes(val, t.r)
                 ELSE IF k = 3 THEN No("VBITooLong") ELSE RdVBIFrom(t.r, k + 1, mult * 128, val)
RdVBI(s) == RdVBIFrom(s, 0, 1, 0)

RdStr(s) == LET l == RdU16(s)
            IN  IF ~l.ok THEN l
                ELSE LET d == RdBytes(l.r, l.v) IN IF d.ok THEN Yes(Canon(d.v), d.r) ELSE d

RdValue(s, type) ==
    CASE type = "byte" -> RdU8(s)
      [] type = "u16"  -> RdU16(s)
      [] type = "u32"  -> RdU32(s)
      [] type = "vbi"  -> RdVBI(s)
      [] type \in {"utf8", "bin"} -> RdStr(s)
      [] type = "pair" -> LET k == RdStr(s)
                          IN  IF ~k.ok THEN k
                              ELSE LET v == RdStr(k.r) IN IF v.ok THEN Yes(<<k.v, v.v>>, v.r) ELSE v

RECURSIVE RdPropList(_, _, _)
RdPropList(s, t, acc) ==                            \* s holds exactly the properties
    IF s = << >> THEN Yes(acc, << >>)
    ELSE LET i == RdVBI(s)
         IN  IF ~i.ok THEN i
             ELSE IF i.v \notin PropIds THEN No("UnknownProperty")
             ELSE IF i.v \notin PropsOf(t) THEN No("PropertyNotAllowed")
             ELSE IF ~Repeatable(i.v, t) /\ HasProp(acc, i.v) THEN No("PropertyRepeated")
             ELSE LET x == RdValue(i.r, PropType(i.v))
                  IN  IF ~x.ok THEN x
                      ELSE IF ~PropValueOK(i.v, x.v) THEN No("PropertyValue")
                      ELSE RdPropList(x.r, t, Append(acc, [id |-> i.v, v |-> x.v]))

RdProps(s, t) ==                                    \* Property Length, then the properties
    LET l == RdVBI(s)
    IN  IF ~l.ok THEN l
        ELSE LET d == RdBytes(l.r, l.v)
             IN  IF ~d.ok THEN No("PropertyLength")
                 ELSE LET ps == RdPropList(d.v, t, << >>)
                      IN  IF ~ps.ok THEN ps
                          ELSE IF HasProp(ps.v, 22) /\ ~HasProp(ps.v, 21) THEN No("AuthDataWithoutMethod")
                          ELSE Yes(ps.v, d.r)

(* reads the fields named by kinds one after the other; v = sequence of values *)
RECURSIVE RdFields(_, _, _, _)
RdFields(s, kinds, t, acc) ==
    IF kinds = << >> THEN Yes(acc, s)
    ELSE LET k == Head(kinds)
             x == CASE k = "u8" -> RdU8(s) [] k = "u16" -> RdU16(s) [] k = "str" -> RdStr(s)
                    [] k = "props" -> RdProps(s, t)
         IN  IF ~x.ok THEN x ELSE RdFields(x.r, Tail(kinds), t, Append(acc, x.v))
Fields(s, kinds, t) == RdFields(s, kinds, t, << >>)

Good(p, form) == [ok |-> TRUE, pkt |-> p, form |-> form, err |-> ""]
Bad(e)        == [ok |-> FALSE, pkt |-> << >>, form |-> "", err |-> e]

RECURSIVE RdFilters(_, _)
RdFilters(s, acc) ==
    IF s = << >> THEN Yes(acc, << >>)
    ELSE LET f == Fields(s, <<"str", "u8">>, "")
         IN  IF ~f.ok THEN f
             ELSE LET o == f.v[2]
                  IN  IF o >= 64 THEN No("ReservedBits")
                      ELSE RdFilters(f.r, Append(acc, [filter |-> f.v[1], qos |-> o % 4, nl |-> (o \div 4) % 2,
                                                       rap |-> (o \div 8) % 2, rh |-> o \div 16]))
RECURSIVE RdStrings(_, _)
RdStrings(s, acc) ==
    IF s = << >> THEN Yes(acc, << >>)
    ELSE LET f == RdStr(s) IN IF ~f.ok THEN f ELSE RdStrings(f.r, Append(acc, f.v))

DecConnect(b) ==
    LET h == Fields(b, <<"str", "u8", "u8", "u16", "props", "str">>, "CONNECT")
    IN  IF ~h.ok THEN Bad(h.err)
        ELSE IF h.v[1] # Canon(Bytes(<<77, 81, 84, 84>>)) \/ h.v[2] # 5 THEN Bad("ProtocolNameOrVersion")
        ELSE LET fl == h.v[3]
                 hasUser == fl \div 128 = 1         hasPass == (fl \div 64) % 2 = 1
                 wRetain == (fl \div 32) % 2        wQos    == (fl \div 8) % 4
                 hasWill == (fl \div 4) % 2 = 1     clean   == (fl \div 2) % 2
                 w == IF hasWill THEN Fields(h.r, <<"props", "str", "str">>, "WILL") ELSE Yes(<< >>, h.r)
             IN  IF fl % 2 # 0 THEN Bad("ReservedBits")                          \* [MQTT-3.1.2-3]
                 ELSE IF ~hasWill /\ (wRetain # 0 \/ wQos # 0) THEN Bad("WillFlags")   \* [MQTT-3.1.2-11], [MQTT-3.1.2-13]
                 ELSE IF ~w.ok THEN Bad(w.err)
                 ELSE LET u == IF hasUser THEN Fields(w.r, <<"str">>, "") ELSE Yes(<< >>, w.r)
                      IN  IF ~u.ok THEN Bad(u.err)
                          ELSE LET pw == IF hasPass THEN Fields(u.r, <<"str">>, "") ELSE Yes(<< >>, u.r)
                               IN  IF ~pw.ok THEN Bad(pw.err)
                                   ELSE IF pw.r # << >> THEN Bad("RemainingLength")
                                   ELSE Good([type |-> "CONNECT", clean |-> clean, keepalive |-> h.v[4],
                                              props |-> h.v[5], cid |-> h.v[6],
                                              will |-> IF hasWill
                                                       THEN <<[qos |-> wQos, retain |-> wRetain, props |-> w.v[1],
                                                               topic |-> w.v[2], payload |-> w.v[3]]>>
                                                       ELSE << >>,
                                              user |-> u.v, pass |-> pw.v], "full")

(* tail of PUBACK/PUBREC/PUBREL/PUBCOMP (after the Packet Identifier) and of *)
(* DISCONNECT/AUTH: nothing, Reason Code only, or Reason Code + Properties   *)
DecTail3(b, t, mk(_, _)) ==
    IF b = << >> THEN Good(mk(0, << >>), "short")
    ELSE LET rc == RdU8(b)
         IN  IF rc.r = << >>
             THEN IF t = "AUTH" THEN Bad("PropertyLengthMissing") ELSE Good(mk(rc.v, << >>), "noprops")
             ELSE LET ps == RdProps(rc.r, t)
                  IN  IF ~ps.ok THEN Bad(ps.err)
                      ELSE IF ps.r # << >> THEN Bad("RemainingLength")
                      ELSE Good(mk(rc.v, ps.v), "full")

DecBody(t, fl, b) ==
    CASE t = "CONNECT" -> DecConnect(b)
      [] t = "CONNACK" ->
            LET f == Fields(b, <<"u8", "u8", "props">>, t)
            IN  IF ~f.ok THEN Bad(f.err)
                ELSE IF f.r # << >> THEN Bad("RemainingLength")
                ELSE IF f.v[1] > 1 THEN Bad("ReservedBits")                      \* [MQTT-3.2.2-1]
                ELSE Good([type |-> t, sp |-> f.v[1], rc |-> f.v[2], props |-> f.v[3]], "full")
      [] t = "PUBLISH" ->
            LET qos == (fl \div 2) % 4
                f == Fields(b, IF qos > 0 THEN <<"str", "u16", "props">> ELSE <<"str", "props">>, t)
            IN  IF ~f.ok THEN Bad(f.err)
                ELSE Good([type |-> t, dup |-> fl \div 8, qos |-> qos, retain |-> fl % 2, topic |-> f.v[1],
                           pid |-> IF qos > 0 THEN f.v[2] ELSE 0,
                           props |-> f.v[Len(f.v)], payload |-> Canon(f.r)], "full")
      [] t \in Acks ->
            LET id == RdU16(b)
            IN  IF ~id.ok THEN Bad(id.err)
                ELSE DecTail3(id.r, t, LAMBDA rc, ps : [type |-> t, pid |-> id.v, rc |-> rc, props |-> ps])
      [] t = "SUBSCRIBE" ->
            LET f == Fields(b, <<"u16", "props">>, t)
            IN  IF ~f.ok THEN Bad(f.err)
                ELSE LET l == RdFilters(f.r, << >>)
                     IN  IF ~l.ok THEN Bad(l.err)
                         ELSE Good([type |-> t, pid |-> f.v[1], props |-> f.v[2], topics |-> l.v], "full")
      [] t = "UNSUBSCRIBE" ->
            LET f == Fields(b, <<"u16", "props">>, t)
            IN  IF ~f.ok THEN Bad(f.err)
                ELSE LET l == RdStrings(f.r, << >>)
                     IN  IF ~l.ok THEN Bad(l.err)
                         ELSE Good([type |-> t, pid |-> f.v[1], props |-> f.v[2], topics |-> l.v], "full")
      [] t \in {"SUBACK", "UNSUBACK"} ->
            LET f == Fields(b, <<"u16", "props">>, t)
            IN  IF ~f.ok THEN Bad(f.err)
                ELSE Good([type |-> t, pid |-> f.v[1], props |-> f.v[2], codes |-> Flat(f.r)], "full")
      [] t \in {"PINGREQ", "PINGRESP"} ->
            IF b # << >> THEN Bad("RemainingLength") ELSE Good([type |-> t], "full")
      [] t \in {"DISCONNECT", "AUTH"} ->
            DecTail3(b, t, LAMBDA rc, ps : [type |-> t, rc |-> rc, props |-> ps])

Decode(bytes) ==
    LET h == RdU8(bytes)
    IN  IF ~h.ok THEN Bad("Truncated")
        ELSE LET l == RdVBI(h.r)
             IN  IF ~l.ok THEN Bad(l.err)
                 ELSE IF BLen(l.r) # l.v THEN Bad("RemainingLength")        \* 2.1.4
                 ELSE IF h.v \div 16 = 0 THEN Bad("ReservedType")           \* Table 2-1
                 ELSE LET t == TypeNames[h.v \div 16]
                          fl == h.v % 16
                      IN  IF t # "PUBLISH" /\ fl # FixedFlags(t) THEN Bad("FixedHeaderFlags")   \* [MQTT-2.1.3-1]
                          ELSE LET d == DecBody(t, fl, l.r)
                               IN  IF ~d.ok THEN d
                                   ELSE IF ~PacketOK(d.pkt) THEN Bad("ProtocolError")
                                   ELSE d

-----------------------------------------------------------------------------
(***************************************************************************)
(* 8.  Equality of contents                                                *)
(***************************************************************************)
PropsWithId(ps, id) == SelectSeq(ps, LAMBDA p : p.id = id)

(* same properties: per identifier the same values in the same order (the   *)
(* order of User Properties and of Subscription Identifiers is preserved),  *)
(* the order of different identifiers is not significant (2.2.2.1)          *)
SameProps(a, b) == /\ Len(a) = Len(b)
                   /\ \A i \in 1..Len(a) : a[i].id \in PropIds
                   /\ \A i \in 1..Len(b) : b[i].id \in PropIds
                   /\ \A id \in PropIds : PropsWithId(a, id) = PropsWithId(b, id)

SameWill(a, b) == /\ Len(a) = Len(b)
                  /\ a # << >> => /\ a[1].qos = b[1].qos /\ a[1].retain = b[1].retain
                                  /\ a[1].topic = b[1].topic /\ a[1].payload = b[1].payload
                                  /\ SameProps(a[1].props, b[1].props)

(* names of the fields in which two packet records of the same type differ  *)
DiffFields(a, b) ==
    LET t == a.type
        plain == CASE t = "CONNECT" -> {"clean", "keepalive", "cid", "user", "pass"}
                   [] t = "CONNACK" -> {"sp", "rc"}
                   [] t = "PUBLISH" -> {"dup", "qos", "retain", "topic", "pid", "payload"}
                   [] t \in Acks    -> {"pid", "rc"}
                   [] t \in {"SUBSCRIBE", "UNSUBSCRIBE"} -> {"pid", "topics"}
                   [] t \in {"SUBACK", "UNSUBACK"} -> {"pid", "codes"}
                   [] t \in {"PINGREQ", "PINGRESP"} -> {}
                   [] t \in {"DISCONNECT", "AUTH"} -> {"rc"}
    IN  IF a.type # b.type THEN {"type"}
        ELSE {f \in plain : a[f] # b[f]}
             \cup (IF t \notin {"PINGREQ", "PINGRESP"} /\ ~SameProps(a.props, b.props) THEN {"props"} ELSE {})
             \cup (IF t = "CONNECT" /\ ~SameWill(a.will, b.will) THEN {"will"} ELSE {})

SamePacket(a, b) == DiffFields(a, b) = {}
=============================================================================
