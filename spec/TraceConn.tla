------------------------------ MODULE TraceConn ------------------------------
(* Conformance of the REAL client's connection handling with Conn.tla.           *)
(* The trace (env TRACE, already reduced to the event kinds used here) is folded  *)
(* through the transition relation of Conn.tla itself: S is the set of model      *)
(* states the recorded prefix can have led to (closed under the model's internal  *)
(* steps); an event must be the label of a transition of some state of S.  When   *)
(* no state of S allows it the scenario DEVIATES from the model: one line         *)
(*      DEV <scenario> <event number> conn:<event>                                *)
(* is printed and validation resumes at the next scenario.  A deviation is not a  *)
(* property violation by itself (tools/vlib.py reports CONFORMANCE-DEVIATION).    *)
(*                                                                               *)
(* Times are taken from the virtual clock of the harness: the timer whose firing  *)
(* ends a pause must have been armed for 2^exp s +- 0.5 s, exp being the model's  *)
(* backoff exponent (0 for the first pause of every reconnect_op, at most 4).     *)
EXTENDS Integers, Sequences, FiniteSets, TLC, Json, IOUtils

C == INSTANCE Conn WITH Users <- {"r"}, NHosts <- 1, NEps <- 1, MaxBreaks <- -1, MaxFails <- -1, MaxCalls <- -1, StaleCheck <- TRUE, st <- 0

Ev == ndJsonDeserialize(IOEnv.TRACE)

VARIABLES i, S, sc, on
vars == <<i, S, sc, on>>

RECURSIVE Closure(_, _)
Closure(done, todo) ==
    IF todo = {} THEN done
    ELSE LET d == done \cup todo
             \* (the end of a pause is taken from the "fire" events below, with its duration checked)
             nxt == UNION {{t.s : t \in {x \in C!Silent(s) : x.l[2] # "backoff_fires"}} : s \in todo}
         IN Closure(d, nxt \ d)
Close(X) == Closure({}, X)

\* the visible transitions of the states in X whose label is l
After(X, l) == UNION {{t.s : t \in {v \in C!Visible(s) : v.l = l}} : s \in X}

InRange(d, exp) == LET base == 1000 * (2 ^ exp) IN d >= base - 500 /\ d <= base + 500

Step(e) ==
    CASE e.e = "call" /\ e.kind = "run"  -> After(S, <<"run">>)
      \* async_disconnect on a client that is not running only swaps in a fresh service
      [] e.e = "call" /\ e.kind = "disc" -> After(S, <<"disc">>) \cup {IF s.client = "svcclosed" THEN C!Stopped(s) ELSE s : s \in {x \in S : x.client # "open"}}
      [] e.e \in {"cancel_all", "destroy"} -> After(S, <<"cancel">>) \cup {s \in S : s.client \in {"idle", "closed"}}
      \* (a terminal signal for a request that has completed reaches nobody)
      [] e.e = "cancel_op" -> IF e.type = "terminal" THEN After(S, <<"svc_cancel">>) \cup S ELSE S
      [] e.e = "resolve" -> After(S, <<"resolve", e.host>>)
      [] e.e = "resolve_end" -> After(S, <<"resolve_end", e.ec = "ok">>) \cup {s \in S : ~C!Open(s)}
      [] e.e = "attempt" -> After(S, <<"attempt", e.host, e.epk>>)
      [] e.e = "attempt_end" -> After(S, <<"attempt_end", e.res = "ok">>) \cup {s \in S : ~C!Open(s)}
      \* a timer fires: it is the pause of a state waiting in backoff only if it was armed for the right time;
      \* any state may also see the firing of some other timer
      [] e.e = "fire" -> LET d == e.due - e.armed IN
                         {[s EXCEPT !.pc = "next"] : s \in {x \in S : x.pc = "backoff" /\ InRange(d, x.pexp)}} \cup S
      [] OTHER -> S

Init == i = 1 /\ S = {} /\ sc = -1 /\ on = FALSE

Next ==
    /\ i <= Len(Ev)
    /\ LET e == Ev[i] IN
       IF e.e = "reset" THEN /\ sc' = e.sc /\ on' = FALSE /\ S' = {}
       ELSE IF e.e = "cfg" THEN /\ S' = Close({C!Fresh("idle", e.hosts, e.nep)}) /\ on' = TRUE /\ UNCHANGED sc
       ELSE IF ~on THEN UNCHANGED <<S, sc, on>>
       ELSE LET n == Step(e) IN
            IF n = {} THEN /\ PrintT("DEV " \o ToString(sc) \o " " \o ToString(e.n) \o " conn:" \o e.e)
                           /\ on' = FALSE /\ S' = {} /\ UNCHANGED sc
            ELSE /\ S' = Close(n) /\ UNCHANGED <<sc, on>>
    /\ i' = i + 1

Spec == Init /\ [][Next]_vars

Accepted ==
    \/ TLCGet("stats").diameter - 1 = Len(Ev)
    \/ PrintT(<<"REJECTED", TLCGet("stats").diameter - 1, Len(Ev)>>) /\ FALSE
=============================================================================
