-------------------------------- MODULE Recv --------------------------------
(***************************************************************************)
(* Implementation-shaped specification of the INBOUND side of the client:  *)
(*   publish_rec_op   (impl/publish_rec_op.hpp): one operation per received *)
(*                    PUBLISH; PUBACK / PUBREC / wait PUBREL / PUBCOMP; the *)
(*                    message is stored only after the final acknowledge-  *)
(*                    ment was written; an error of the PUBACK / PUBREC     *)
(*                    write abandons the exchange, try_again on the PUBCOMP *)
(*                    write makes the operation wait for PUBREL again       *)
(*   replies          PUBREL waits keyed by PACKET IDENTIFIER and owned by  *)
(*                    an operation (= a message); a PUBREL nobody waits for *)
(*                    is kept as a fast reply until the next write starts;  *)
(*                    a second wait for the same identifier replaces the    *)
(*                    first (KeepOldWaiter = TRUE: the seeded change r3-c04)*)
(*   client_service / update_session_state() drops the PUBREL waits of a    *)
(*   async_sender     lost session; resend() THEN completes the queued      *)
(*                    writes with try_again, which re-arms the wait of an   *)
(*                    exchange whose PUBCOMP was queued; since fix F15 the  *)
(*                    waits are dropped once more after that                *)
(*                    (ClearAfterRequeue = FALSE: the code before the fix)  *)
(* with a conformant broker acting as QoS 1/2 sender (it gives a message    *)
(* the lowest packet identifier it is not using, retransmits PUBLISH(DUP) / *)
(* PUBREL on a resumed session, forgets everything in flight when the       *)
(* session is lost) and a network that loses connections.                   *)
(*                                                                         *)
(* C04 as invariants: a QoS 2 message is stored at most once; once nothing  *)
(* more can happen every exchange the broker completed has been stored (QoS *)
(* 1 at least once, QoS 2 exactly once) and no PUBREL is left unanswered.   *)
(*                                                                         *)
(* LossyWrites = TRUE lets a client write fail although its bytes reached   *)
(* the broker (a gather-write cut short by a reset): TLC then finds the     *)
(* recorded findings F5 / F10 (known_findings.json).                        *)
(***************************************************************************)
EXTENDS Integers, Sequences, FiniteSets, TLC, Json

CONSTANTS
    NMsgs,        \* broker messages 1..NMsgs
    QosOf,        \* <<1, 2, ...>>
    MaxFaults,
    SessionLoss,  \* TRUE: a reconnect may come with Session Present = 0
    LossyWrites,
    ClearAfterRequeue,
    KeepOldWaiter,
    CancelOnPublish,  \* TRUE: a received QoS 2 PUBLISH aborts the PUBREL wait of an earlier attempt with that identifier
                      \* (the code since fix F17); FALSE: the old wait lives until the new operation starts to wait
    SilentLoss    \* TRUE: a write may be reported successful although its bytes never reach the broker, the connection
                  \* being lost right afterwards (send buffer); TLC then finds the recorded finding F16

Msgs == 1..NMsgs
Pids == 1..NMsgs

VARIABLES
    bst,      \* broker, per message: "new" | "sent" | "rel" | "done" | "lost"
    pid,      \* broker, per message: its packet identifier (0: none yet)
    up,       \* connection is up
    b2c,      \* packets in flight to the client: [t, m, p]   t \in {"PUBLISH","PUBREL"}
    wr,       \* client write in progress: << >> or <<[t, m, p]>>   t \in {"PUBACK","PUBREC","PUBCOMP"}; m = the operation's message
    dlv,      \* its bytes have reached the broker (the broker may answer before the write completion handler runs)
    wq,       \* client writes queued behind it
    waiters,  \* PUBREL waits: set of [p, m]  (identifier waited for, message of the operation that waits)
    rearm,    \* waits that resend() will re-arm on the next connection (operations whose PUBCOMP write did not go out)
    fast,     \* identifiers with a PUBREL kept as fast reply
    stored,   \* per message: number of times it was put into the receive channel
    faults,
    relUnanswered,  \* ghost: identifiers whose PUBREL was delivered to the client on this connection and not yet answered
    foreign,        \* ghost: a PUBREL was taken by the operation of ANOTHER message than the one the broker releases
    hist            \* the environment's choices so far (model-guided scenarios, tools/l3.py); hidden by VIEW NoHist

vars == <<bst, pid, up, b2c, wr, dlv, wq, waiters, rearm, fast, stored, faults, relUnanswered, foreign, hist>>
NoHist == <<bst, pid, up, b2c, wr, dlv, wq, waiters, rearm, fast, stored, faults, relUnanswered, foreign>>

Init ==
    /\ bst = [m \in Msgs |-> "new"] /\ pid = [m \in Msgs |-> 0] /\ up = TRUE /\ b2c = << >> /\ wr = << >> /\ dlv = FALSE /\ wq = << >>
    /\ waiters = {} /\ rearm = {} /\ fast = {} /\ stored = [m \in Msgs |-> 0] /\ faults = 0 /\ relUnanswered = {} /\ foreign = FALSE /\ hist = << >>

InFlight(st) == {m \in Msgs : st[m] \in {"sent", "rel"}}
\* the broker's message that currently owns identifier p (0: none)
Owner(st, p) == IF \E m \in InFlight(st) : pid[m] = p THEN CHOOSE m \in InFlight(st) : pid[m] = p ELSE 0

---------------------------------------------------------------------------
(* client *)

\* async_sender: one write at a time; starting a write discards the fast replies
StartWrites(q, w, f) ==
    IF w = << >> /\ q # << >> THEN [wr |-> <<Head(q)>>, wq |-> Tail(q), fast |-> {}]
    ELSE [wr |-> w, wq |-> q, fast |-> f]

Send(pkt) ==
    LET s == StartWrites(Append(wq, pkt), wr, fast) IN wr' = s.wr /\ wq' = s.wq /\ fast' = s.fast

\* async_wait_reply(PUBREL, p) by the operation of message m
Register(ws, p, m) ==
    IF \E w \in ws : w.p = p
      THEN IF KeepOldWaiter THEN ws                                               \* the new wait is refused (its operation ends)
           ELSE {w \in ws : w.p # p} \cup {[p |-> p, m |-> m]}                    \* the old wait is aborted
      ELSE ws \cup {[p |-> p, m |-> m]}

\* read_message_op / assemble_op hand the next packet to the client
ClientReads ==
    /\ up /\ b2c # << >>
    /\ LET k == Head(b2c) IN
       /\ b2c' = Tail(b2c)
       /\ IF k.t = "PUBLISH" THEN
              \* publish_rec_op::perform: a fresh operation per received PUBLISH
              /\ Send([t |-> IF QosOf[k.m] = 1 THEN "PUBACK" ELSE "PUBREC", m |-> k.m, p |-> k.p])
              /\ waiters' = IF CancelOnPublish /\ QosOf[k.m] = 2 THEN {w \in waiters : w.p # k.p} ELSE waiters
              /\ UNCHANGED <<stored, relUnanswered, foreign>>
          ELSE \* PUBREL: replies::dispatch
              /\ relUnanswered' = relUnanswered \cup {k.p}
              /\ IF \E w \in waiters : w.p = k.p
                   THEN LET w == CHOOSE w \in waiters : w.p = k.p IN
                        /\ waiters' = waiters \ {w}
                        /\ Send([t |-> "PUBCOMP", m |-> w.m, p |-> k.p])      \* on_pubrel of THE WAITING operation -> send_pubcomp
                        /\ foreign' = (foreign \/ w.m # k.m)
                   ELSE /\ fast' = fast \cup {k.p} /\ UNCHANGED <<waiters, wr, wq, foreign>>
              /\ UNCHANGED stored
    /\ UNCHANGED <<bst, pid, up, faults, dlv, rearm>>
    /\ hist' = Append(hist, [op |-> "read"])

\* the broker's reaction to a client packet it received (it knows identifiers, not the client's operations)
BrokerGets(pkt, st) ==
    LET o == Owner(st, pkt.p) IN
    IF o = 0 THEN st
    ELSE IF pkt.t = "PUBACK" /\ st[o] = "sent" /\ QosOf[o] = 1 THEN [st EXCEPT ![o] = "done"]
    ELSE IF pkt.t = "PUBREC" /\ st[o] = "sent" /\ QosOf[o] = 2 THEN [st EXCEPT ![o] = "rel"]
    ELSE IF pkt.t = "PUBCOMP" /\ st[o] = "rel" THEN [st EXCEPT ![o] = "done"]
    ELSE st

\* the bytes of the write in progress reach the broker; it reacts at once (PUBREC -> PUBREL)
Deliver ==
    /\ up /\ wr # << >> /\ ~dlv
    /\ LET k == wr[1]
           o == Owner(bst, k.p) IN
       /\ bst' = BrokerGets(k, bst)
       /\ b2c' = IF k.t = "PUBREC" /\ o # 0 /\ bst[o] = "sent" /\ QosOf[o] = 2 THEN Append(b2c, [t |-> "PUBREL", m |-> o, p |-> k.p]) ELSE b2c
       /\ relUnanswered' = IF k.t = "PUBCOMP" THEN relUnanswered \ {k.p} ELSE relUnanswered
    /\ dlv' = TRUE
    /\ UNCHANGED <<pid, up, wr, wq, waiters, rearm, fast, stored, faults, foreign>>
    /\ hist' = Append(hist, [op |-> "wdeliver"])

\* what the write completion handler does: the operation continues, then the next write starts
AfterWrite ==
    LET k == wr[1]
        hitFast == k.t = "PUBREC" /\ k.p \in fast                                         \* fast reply consumed
        w1 == IF k.t = "PUBREC" /\ ~hitFast THEN Register(waiters, k.p, k.m) ELSE waiters   \* wait_pubrel
        q1 == IF hitFast THEN Append(wq, [t |-> "PUBCOMP", m |-> k.m, p |-> k.p]) ELSE wq
        s == StartWrites(q1, << >>, IF hitFast THEN fast \ {k.p} ELSE fast)
    IN [waiters |-> w1,
        stored |-> IF k.t \in {"PUBACK", "PUBCOMP"} THEN [stored EXCEPT ![k.m] = @ + 1] ELSE stored,   \* complete(): channel_store
        wr |-> s.wr, wq |-> s.wq, fast |-> s.fast]

WriteOk ==
    /\ up /\ wr # << >> /\ dlv
    /\ LET a == AfterWrite IN
       waiters' = a.waiters /\ stored' = a.stored /\ wr' = a.wr /\ wq' = a.wq /\ fast' = a.fast
    /\ dlv' = FALSE
    /\ UNCHANGED <<bst, pid, b2c, relUnanswered, up, faults, rearm, foreign>>
    /\ hist' = Append(hist, [op |-> "wend"])

\* the write is reported successful, but its bytes never leave the machine: the connection is lost right afterwards
WriteOkLost ==
    /\ SilentLoss /\ up /\ wr # << >> /\ ~dlv /\ faults < MaxFaults
    /\ LET a == AfterWrite
           all == a.wr \o a.wq
       IN /\ waiters' = a.waiters /\ stored' = a.stored
          /\ rearm' = rearm \cup {[p |-> all[i].p, m |-> all[i].m] : i \in {j \in DOMAIN all : all[j].t = "PUBCOMP"}}
    /\ up' = FALSE /\ b2c' = << >> /\ wr' = << >> /\ dlv' = FALSE /\ wq' = << >> /\ fast' = {}
    /\ faults' = faults + 1 /\ relUnanswered' = {}
    /\ UNCHANGED <<bst, pid, foreign>>
    /\ hist' = Append(hist, [op |-> "wlost"])

\* the connection is lost.  The write in progress fails (delivered = whether its bytes reached the broker);
\* everything queued is told try_again by resend() after the reconnect.
Fault(delivered) ==
    /\ up /\ faults < MaxFaults
    \* a write already delivered fails "although delivered" (LossyWrites); otherwise the failing write was not delivered
    /\ (delivered <=> (wr # << >> /\ dlv))
    /\ (delivered => LossyWrites)
    /\ LET all == wr \o wq
           \* try_again: PUBACK / PUBREC operations return (exchange abandoned), PUBCOMP waits for PUBREL again
       IN rearm' = rearm \cup {[p |-> all[i].p, m |-> all[i].m] : i \in {j \in DOMAIN all : all[j].t = "PUBCOMP"}}
    /\ up' = FALSE /\ b2c' = << >> /\ wr' = << >> /\ dlv' = FALSE /\ wq' = << >> /\ fast' = {}
    /\ faults' = faults + 1 /\ relUnanswered' = {}
    /\ UNCHANGED <<bst, pid, stored, waiters, foreign>>
    /\ hist' = Append(hist, [op |-> "fault", dlv |-> delivered])

RECURSIVE RegisterAll(_, _)
RegisterAll(ws, rs) == IF rs = {} THEN ws ELSE LET r == CHOOSE r \in rs : TRUE IN RegisterAll(Register(ws, r.p, r.m), rs \ {r})

\* reconnect: Session Present 1 -> the broker retransmits what is unacknowledged, in order; the client's waits are
\*            re-armed (resend_unanswered: try_again -> wait_pubrel)
\*            Session Present 0 -> the broker forgets the exchanges in flight; update_session_state() drops the waits,
\*            resend() re-arms those of the queued PUBCOMPs, and (fix F15) drops them again
Reconnect(sp) ==
    /\ ~up
    /\ (sp = 0 => SessionLoss)
    /\ up' = TRUE
    /\ IF sp = 1
         THEN /\ b2c' = [i \in 1..Cardinality(InFlight(bst)) |->
                           LET ms == InFlight(bst)
                               m == CHOOSE x \in ms : Cardinality({y \in ms : y < x}) = i - 1
                           IN [t |-> IF bst[m] = "sent" THEN "PUBLISH" ELSE "PUBREL", m |-> m, p |-> pid[m]]]
              /\ waiters' = RegisterAll(waiters, rearm)
              /\ UNCHANGED bst
         ELSE /\ b2c' = << >>
              /\ bst' = [m \in Msgs |-> IF bst[m] \in {"sent", "rel"} THEN "lost" ELSE bst[m]]
              /\ waiters' = IF ClearAfterRequeue THEN {} ELSE RegisterAll({}, rearm)
    /\ rearm' = {}
    /\ UNCHANGED <<pid, wr, dlv, wq, fast, stored, faults, relUnanswered, foreign>>
    /\ hist' = Append(hist, [op |-> "reconnect", sp |-> sp])

\* the broker sends the next message (in order), with the lowest identifier it is not using
BrokerPublish(m) ==
    /\ up /\ bst[m] = "new" /\ \A k \in Msgs : k < m => bst[k] # "new"
    /\ LET used == {pid[x] : x \in InFlight(bst)}
           p == CHOOSE q \in Pids : q \notin used /\ \A r \in Pids : r < q => r \in used
       IN /\ pid' = [pid EXCEPT ![m] = p]
          /\ b2c' = Append(b2c, [t |-> "PUBLISH", m |-> m, p |-> p])
    /\ bst' = [bst EXCEPT ![m] = "sent"]
    /\ UNCHANGED <<up, wr, dlv, wq, waiters, rearm, fast, stored, faults, relUnanswered, foreign>>
    /\ hist' = Append(hist, [op |-> "bpub", m |-> m])

Next ==
    \/ ClientReads \/ Deliver \/ WriteOk \/ WriteOkLost \/ Fault(FALSE) \/ Fault(TRUE)
    \/ Reconnect(1) \/ Reconnect(0)
    \/ \E m \in Msgs : BrokerPublish(m)

Spec == Init /\ [][Next]_vars

---------------------------------------------------------------------------
Qos2AtMostOnce == \A m \in Msgs : QosOf[m] = 2 => stored[m] <= 1                       \* C04_e
\* nothing more can happen and the connection is up: what the broker completed has been delivered,
\* and no PUBREL it sent on this connection is left without PUBCOMP
Quiet == up /\ ~ENABLED Next
CompletedIsDelivered ==                                                                  \* C04_e / C04_f
    Quiet => \A m \in Msgs : bst[m] = "done" => IF QosOf[m] = 2 THEN stored[m] = 1 ELSE stored[m] >= 1
NoPubrelUnanswered == Quiet => relUnanswered = {} /\ \A m \in Msgs : bst[m] # "rel"      \* C04_c
NothingStuck == Quiet => \A m \in Msgs : bst[m] \in {"done", "lost"}                      \* C04_a (every PUBLISH acknowledged)
\* a QoS 2 message reaches the application only through its own exchange (C04_d / C04_e)
OnlyOwnRelease == ~foreign
\* model-guided scenarios: every state prints the environment history that led to it (one per state under VIEW NoHist)
EmitScript == PrintT("SCRIPT " \o ToJson(hist))
=============================================================================
