-------------------------------- MODULE Recv --------------------------------
(***************************************************************************)
(* Implementation-shaped specification of the INBOUND side of the client:  *)
(*   publish_rec_op   (impl/publish_rec_op.hpp): PUBACK / PUBREC / wait    *)
(*                    PUBREL / PUBCOMP, message stored only after the      *)
(*                    final acknowledgement was written, every error of a  *)
(*                    write other than try_again on PUBCOMP abandons the   *)
(*                    exchange                                              *)
(*   replies          PUBREL waiters keyed by packet id, fast replies      *)
(*                    discarded at the next write, duplicate waiter        *)
(*                    replaces the old one, pending PUBRELs dropped when   *)
(*                    the session is not resumed                           *)
(* with a conformant broker acting as QoS 1/2 sender (retransmission of    *)
(* PUBLISH(DUP) / PUBREL on a resumed session) and a network that loses    *)
(* connections.                                                            *)
(*                                                                         *)
(* C04 as invariants: a QoS 2 message is stored at most once; PUBCOMP      *)
(* never without PUBREL; once nothing more can happen every exchange the   *)
(* broker completed has been stored (QoS 1 at least once, QoS 2 exactly    *)
(* once) and no PUBREL is left unanswered.                                 *)
(*                                                                         *)
(* LossyWrites = TRUE lets a client write whose bytes reached the broker fail (a   *)
(* its bytes reached the broker (a gather-write cut short by a reset).     *)
(* With it TLC finds the recorded findings F5 / F10 (known_findings.json); *)
(* with FALSE every invariant holds.                                       *)
(***************************************************************************)
EXTENDS Integers, Sequences, FiniteSets, TLC, Json

CONSTANTS
    NMsgs,        \* broker messages 1..NMsgs; message m uses packet id m
    QosOf,        \* <<1, 2, ...>>
    MaxFaults,
    SessionLoss,  \* TRUE: a reconnect may come with Session Present = 0
    LossyWrites

Msgs == 1..NMsgs

VARIABLES
    bst,      \* broker, per message: "new" | "sent" | "rel" | "done" | "lost"
    up,       \* connection is up
    b2c,      \* packets in flight to the client: [t, m]   t \in {"PUBLISH","PUBREL"}
    wr,       \* client write in progress: << >> or <<[t, m]>>   t \in {"PUBACK","PUBREC","PUBCOMP"}
    dlv,      \* its bytes have reached the broker (the broker may answer before the write completion handler runs)
    wq,       \* client writes queued behind it
    waiters,  \* packet ids with a PUBREL waiter (replies::_handlers)
    fast,     \* PUBREL fast replies (replies::_fast_replies)
    stored,   \* per message: number of times it was put into the receive channel
    faults,
    relUnanswered,  \* ghost: PUBRELs delivered to the client on the current connection and not yet answered by PUBCOMP
    hist            \* the environment's choices so far (model-guided scenarios, tools/l3.py); hidden by VIEW NoHist

vars == <<bst, up, b2c, wr, dlv, wq, waiters, fast, stored, faults, relUnanswered, hist>>
NoHist == <<bst, up, b2c, wr, dlv, wq, waiters, fast, stored, faults, relUnanswered>>

Init ==
    /\ bst = [m \in Msgs |-> "new"] /\ up = TRUE /\ b2c = << >> /\ wr = << >> /\ dlv = FALSE /\ wq = << >>
    /\ waiters = {} /\ fast = {} /\ stored = [m \in Msgs |-> 0] /\ faults = 0 /\ relUnanswered = {} /\ hist = << >>

---------------------------------------------------------------------------
(* client *)

\* async_sender: one write at a time; starting a write discards the fast replies
StartWrites(q, w, f) ==
    IF w = << >> /\ q # << >> THEN [wr |-> <<Head(q)>>, wq |-> Tail(q), fast |-> {}]
    ELSE [wr |-> w, wq |-> q, fast |-> f]

Send(pkt) ==
    LET s == StartWrites(Append(wq, pkt), wr, fast) IN wr' = s.wr /\ wq' = s.wq /\ fast' = s.fast

\* read_message_op / assemble_op hand the next packet to the client
ClientReads ==
    /\ up /\ b2c # << >>
    /\ LET p == Head(b2c) IN
       /\ b2c' = Tail(b2c)
       /\ IF p.t = "PUBLISH" THEN
              \* publish_rec_op::perform: answer per QoS (a fresh operation per received PUBLISH)
              /\ Send([t |-> IF QosOf[p.m] = 1 THEN "PUBACK" ELSE "PUBREC", m |-> p.m])
              /\ UNCHANGED <<waiters, stored, relUnanswered>>
          ELSE \* PUBREL: replies::dispatch
              /\ relUnanswered' = relUnanswered \cup {p.m}
              /\ IF p.m \in waiters
                   THEN /\ waiters' = waiters \ {p.m}
                        /\ Send([t |-> "PUBCOMP", m |-> p.m])      \* on_pubrel -> send_pubcomp
                   ELSE /\ fast' = fast \cup {p.m} /\ UNCHANGED <<waiters, wr, wq>>
              /\ UNCHANGED stored
    /\ UNCHANGED <<bst, up, faults, dlv>>
    /\ hist' = Append(hist, [op |-> "read"])

\* the broker's reaction to a client packet it received
BrokerGets(pkt, st) ==
    IF pkt.t = "PUBACK" /\ st[pkt.m] = "sent" THEN [st EXCEPT ![pkt.m] = "done"]
    ELSE IF pkt.t = "PUBREC" /\ st[pkt.m] = "sent" THEN [st EXCEPT ![pkt.m] = "rel"]
    ELSE IF pkt.t = "PUBCOMP" /\ st[pkt.m] = "rel" THEN [st EXCEPT ![pkt.m] = "done"]
    ELSE st

\* the bytes of the write in progress reach the broker; it reacts at once (PUBREC -> PUBREL)
Deliver ==
    /\ up /\ wr # << >> /\ ~dlv
    /\ LET p == wr[1] IN
       /\ bst' = BrokerGets(p, bst)
       /\ b2c' = IF p.t = "PUBREC" /\ bst[p.m] = "sent" THEN Append(b2c, [t |-> "PUBREL", m |-> p.m]) ELSE b2c
       /\ relUnanswered' = IF p.t = "PUBCOMP" THEN relUnanswered \ {p.m} ELSE relUnanswered
    /\ dlv' = TRUE
    /\ UNCHANGED <<up, wr, wq, waiters, fast, stored, faults>>
    /\ hist' = Append(hist, [op |-> "wdeliver"])

\* the write completion handler runs: the operation continues, then the next write starts
WriteOk ==
    /\ up /\ wr # << >> /\ dlv
    /\ LET p == wr[1]
           w1 == IF p.t = "PUBREC" /\ p.m \notin fast THEN waiters \cup {p.m} ELSE waiters   \* wait_pubrel
           hitFast == p.t = "PUBREC" /\ p.m \in fast                                         \* fast reply consumed
           q1 == IF hitFast THEN Append(wq, [t |-> "PUBCOMP", m |-> p.m]) ELSE wq
           s == StartWrites(q1, << >>, IF hitFast THEN fast \ {p.m} ELSE fast)
       IN /\ waiters' = w1
          /\ stored' = IF p.t \in {"PUBACK", "PUBCOMP"} THEN [stored EXCEPT ![p.m] = @ + 1] ELSE stored   \* complete(): channel_store
          /\ wr' = s.wr /\ wq' = s.wq /\ fast' = s.fast
    /\ dlv' = FALSE
    /\ UNCHANGED <<bst, b2c, relUnanswered, up, faults>>
    /\ hist' = Append(hist, [op |-> "wend"])

\* the connection is lost.  The write in progress fails (delivered = whether its bytes reached the broker);
\* everything queued and every waiter is told try_again by resend() after the reconnect.
Fault(delivered) ==
    /\ up /\ faults < MaxFaults
    \* a write already delivered fails "although delivered" (LossyWrites); otherwise the failing write was not delivered
    /\ (delivered <=> (wr # << >> /\ dlv))
    /\ (delivered => LossyWrites)
    /\ LET st1 == bst
           all == wr \o wq
           \* try_again: PUBACK / PUBREC operations return (exchange abandoned), PUBCOMP waits for PUBREL again
           back == {all[i].m : i \in {j \in DOMAIN all : all[j].t = "PUBCOMP"}}
       IN /\ bst' = st1
          /\ waiters' = waiters \cup back          \* waiters themselves re-register (wait_pubrel on try_again)
    /\ up' = FALSE /\ b2c' = << >> /\ wr' = << >> /\ dlv' = FALSE /\ wq' = << >> /\ fast' = {}
    /\ faults' = faults + 1 /\ relUnanswered' = {}
    /\ UNCHANGED stored
    /\ hist' = Append(hist, [op |-> "fault", dlv |-> delivered])

\* reconnect: Session Present 1 -> the broker retransmits what is unacknowledged, in order;
\*            Session Present 0 -> both sides forget the exchanges in flight
Reconnect(sp) ==
    /\ ~up
    /\ (sp = 0 => SessionLoss)
    /\ up' = TRUE
    /\ IF sp = 1
         THEN /\ b2c' = [i \in 1..Cardinality({m \in Msgs : bst[m] \in {"sent", "rel"}}) |->
                           LET ms == {m \in Msgs : bst[m] \in {"sent", "rel"}}
                               m == CHOOSE x \in ms : Cardinality({y \in ms : y < x}) = i - 1
                           IN [t |-> IF bst[m] = "sent" THEN "PUBLISH" ELSE "PUBREL", m |-> m]]
              /\ UNCHANGED <<bst, waiters>>
         ELSE /\ b2c' = << >>
              /\ bst' = [m \in Msgs |-> IF bst[m] \in {"sent", "rel"} THEN "lost" ELSE bst[m]]
              /\ waiters' = {}                       \* update_session_state(): clear_pending_pubrels()
    /\ UNCHANGED <<wr, dlv, wq, fast, stored, faults, relUnanswered>>
    /\ hist' = Append(hist, [op |-> "reconnect", sp |-> sp])

\* the broker sends the next message (in order)
BrokerPublish(m) ==
    /\ up /\ bst[m] = "new" /\ \A k \in Msgs : k < m => bst[k] # "new"
    /\ bst' = [bst EXCEPT ![m] = "sent"]
    /\ b2c' = Append(b2c, [t |-> "PUBLISH", m |-> m])
    /\ UNCHANGED <<up, wr, dlv, wq, waiters, fast, stored, faults, relUnanswered>>
    /\ hist' = Append(hist, [op |-> "bpub", m |-> m])

Next ==
    \/ ClientReads \/ Deliver \/ WriteOk \/ Fault(FALSE) \/ Fault(TRUE)
    \/ Reconnect(1) \/ Reconnect(0)
    \/ \E m \in Msgs : BrokerPublish(m)

Spec == Init /\ [][Next]_vars

---------------------------------------------------------------------------
Qos2AtMostOnce == \A m \in Msgs : QosOf[m] = 2 => stored[m] <= 1                       \* C04_e
\* nothing more can happen and the connection is up: what the broker completed has been delivered,
\* and no PUBREL it sent on this connection is left without PUBCOMP
Quiet == up /\ ~ENABLED Next
CompletedIsDelivered ==                                                                  \* C04_e / C04_f
    Quiet => \A m \in Msgs : bst[m] = "done" => IF QosOf[m] = 2 THEN stored[m] = 1 ELSE stored[m] >= 1
NoPubrelUnanswered == Quiet => relUnanswered = {} /\ \A m \in Msgs : bst[m] # "rel"      \* C04_c
NothingStuck == Quiet => \A m \in Msgs : bst[m] \in {"done", "lost"}                      \* C04_a (every PUBLISH acknowledged)
\* model-guided scenarios: every state prints the environment history that led to it (one per state under VIEW NoHist)
EmitScript == PrintT("SCRIPT " \o ToJson(hist))
=============================================================================
