----------------------------- MODULE AsyncMutex -----------------------------
(* detail/async_mutex.hpp: the connection lock.  _locked, _waiting (a deque   *)
(* whose cancelled entries are emptied in place), completions always posted,  *)
(* per-waiter cancellation completing the waiter at once, cancel() aborting   *)
(* every waiter.  C11: at most one holder, every waiter completed exactly     *)
(* once — success in arrival order among the waiters not cancelled, or        *)
(* operation_aborted — and a cancelled waiter never becomes holder.           *)
EXTENDS Integers, Sequences, FiniteSets

CONSTANT MaxW            \* number of lock() calls explored

VARIABLES locked,        \* _locked
          waiting,       \* _waiting: waiter ids, 0 = emptied entry
          posted,        \* completions handed to the executor, FIFO: [w, ec]
          st,            \* per waiter: "new" | "waiting" | "posted_ok" | "posted_ab" | "held" | "released" | "aborted"
          grants         \* ghost: waiters in the order they became holder

vars == <<locked, waiting, posted, st, grants>>
W == 1..MaxW

Init == /\ locked = FALSE /\ waiting = << >> /\ posted = << >>
        /\ st = [w \in W |-> "new"] /\ grants = << >>

NextNew == IF \E w \in W : st[w] = "new" THEN CHOOSE w \in W : st[w] = "new" /\ \A v \in W : v < w => st[v] # "new" ELSE 0

\* lock(): acquire or queue; the completion is never run inside lock()
Lock(w) ==
    /\ w = NextNew /\ w # 0
    /\ IF ~locked
         THEN /\ locked' = TRUE /\ posted' = Append(posted, [w |-> w, ec |-> "ok"])
              /\ st' = [st EXCEPT ![w] = "posted_ok"] /\ UNCHANGED waiting
         ELSE /\ waiting' = Append(waiting, w) /\ st' = [st EXCEPT ![w] = "waiting"]
              /\ UNCHANGED <<locked, posted>>
    /\ UNCHANGED grants

\* what unlock() does to (locked, waiting, posted)
RECURSIVE SkipEmpty(_)
SkipEmpty(q) == IF q # << >> /\ Head(q) = 0 THEN SkipEmpty(Tail(q)) ELSE q

UnlockOf(lk, wt, ps) ==
    LET q == SkipEmpty(wt) IN
    IF q = << >> THEN [locked |-> FALSE, waiting |-> << >>, posted |-> ps, next |-> 0]
    ELSE [locked |-> lk, waiting |-> Tail(q), posted |-> Append(ps, [w |-> Head(q), ec |-> "ok"]), next |-> Head(q)]

Unlock ==
    /\ \E h \in W : st[h] = "held"
    /\ LET h == CHOOSE h \in W : st[h] = "held"
           u == UnlockOf(locked, waiting, posted)
       IN /\ locked' = u.locked /\ waiting' = u.waiting /\ posted' = u.posted
          /\ st' = [st EXCEPT ![h] = "released", ![u.next] = IF u.next = 0 THEN @ ELSE "posted_ok"]
    /\ UNCHANGED grants

\* cancel(): every live waiter is completed with operation_aborted (posted)
CancelAllOf(wt, ps) == ps \o [i \in 1..Len(SelectSeq(wt, LAMBDA x : x # 0)) |-> [w |-> SelectSeq(wt, LAMBDA x : x # 0)[i], ec |-> "aborted"]]
CancelAll ==
    /\ posted' = CancelAllOf(waiting, posted)
    /\ st' = [w \in W |-> IF st[w] = "waiting" THEN "posted_ab" ELSE st[w]]
    /\ waiting' = << >>
    /\ UNCHANGED <<locked, grants>>

\* per-waiter cancellation: the entry is emptied in place and the waiter completed at once
CancelOne(w) ==
    /\ st[w] = "waiting"
    /\ waiting' = [i \in DOMAIN waiting |-> IF waiting[i] = w THEN 0 ELSE waiting[i]]
    /\ st' = [st EXCEPT ![w] = "aborted"]
    /\ UNCHANGED <<locked, posted, grants>>

\* the executor runs the oldest posted completion
Run ==
    /\ posted # << >>
    /\ LET p == Head(posted) IN
       /\ st' = [st EXCEPT ![p.w] = IF p.ec = "ok" THEN "held" ELSE "aborted"]
       /\ grants' = IF p.ec = "ok" THEN Append(grants, p.w) ELSE grants
    /\ posted' = Tail(posted)
    /\ UNCHANGED <<locked, waiting>>

Next == (\E w \in W : Lock(w) \/ CancelOne(w)) \/ Unlock \/ CancelAll \/ Run
Spec == Init /\ [][Next]_vars
FairSpec == Spec /\ WF_vars(Run) /\ WF_vars(Unlock)

-----------------------------------------------------------------------------
Holders == {w \in W : st[w] \in {"posted_ok", "held"}}
AtMostOneHolder == Cardinality(Holders) <= 1                                      \* C11_a
LockedIffHeld   == locked <=> Holders # {}                                        \* the lock is never lost nor leaked
GrantsInArrivalOrder == \A i, j \in DOMAIN grants : i < j => grants[i] < grants[j]   \* C11_b
CancelledNeverHolds == \A w \in W : st[w] = "aborted" => ~\E i \in DOMAIN grants : grants[i] = w   \* C11_e
QueueConsistent == /\ \A i \in DOMAIN waiting : waiting[i] = 0 \/ st[waiting[i]] = "waiting"
                   /\ \A w \in W : st[w] = "waiting" => \E i \in DOMAIN waiting : waiting[i] = w
                   /\ \A i, j \in DOMAIN waiting : i < j /\ waiting[i] # 0 /\ waiting[j] # 0 => waiting[i] < waiting[j]
\* every waiter is eventually completed once the holder keeps unlocking (FairSpec)
EveryWaiterCompleted == \A w \in W : (st[w] = "waiting") ~> (st[w] \in {"held", "aborted"})
=============================================================================
