SPECIFICATION Spec
CONSTANTS
  NMsgs = 4
  QosOf <- Q_2211
  MaxFaults = 3
  SessionLoss = TRUE
  LossyWrites = FALSE
INVARIANT Qos2AtMostOnce
INVARIANT CompletedIsDelivered
INVARIANT NoPubrelUnanswered
INVARIANT NothingStuck
CHECK_DEADLOCK FALSE
