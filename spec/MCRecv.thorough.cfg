SPECIFICATION Spec
CONSTANTS
  NMsgs = 4
  QosOf <- Q_2211
  MaxFaults = 3
  SessionLoss = TRUE
  ClearAfterRequeue = TRUE
  KeepOldWaiter = FALSE
  CancelOnPublish = TRUE
  SilentLoss = FALSE
  LossyWrites = FALSE
INVARIANT Qos2AtMostOnce
INVARIANT CompletedIsDelivered
INVARIANT NoPubrelUnanswered
INVARIANT NothingStuck
INVARIANT OnlyOwnRelease
VIEW NoHist
CHECK_DEADLOCK FALSE
