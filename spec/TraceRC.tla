------------------------------- MODULE TraceRC -------------------------------
(* C20: validates the results the real to_reason_code<category>(byte) gave for *)
(* all 9 x 256 pairs, and again in history-dependent orders (file named by env  *)
(* TRACE), against ReasonCodes.  One state per record.                          *)
EXTENDS ReasonCodes, Json, IOUtils, TLC, Sequences, FiniteSets

ASSUME TablesSane

Res == ndJsonDeserialize(IOEnv.TRACE)

VARIABLE i
Clauses(r) ==
    LET x == Expect(r.cat, r.b) IN
       (IF x = "accept" /\ r.has = 0 THEN {"C20_a_RejectedButServerMaySend"} ELSE {})
    \cup (IF x = "reject" /\ r.has = 1 THEN {"C20_a_AcceptedButNotListed"} ELSE {})
    \cup (IF r.has = 1 /\ r.val # r.b THEN {"C20_b_ReportedValueDiffers"} ELSE {})

Init == i = 1
Next == /\ i <= Len(Res)
        /\ \A cl \in Clauses(Res[i]) : PrintT("VIOL " \o Res[i].cat \o ":" \o ToString(Res[i].b) \o " " \o cl)
        /\ i' = i + 1
Spec == Init /\ [][Next]_i

\* the first 9 x 256 records are the exhaustive enumeration (every pair exactly once); the records after them repeat
\* lookups in other orders (every byte again right after each category accepted it): the verdict must not depend on
\* the history of earlier lookups
Complete == /\ Len(Res) >= 9 * 256
            /\ Cardinality({<<Res[k].cat, Res[k].b>> : k \in 1..(9 * 256)}) = 9 * 256
            /\ \A k \in DOMAIN Res : Res[k].cat \in Cats /\ Res[k].b \in 0..255
Accepted == \/ (TLCGet("stats").diameter - 1 = Len(Res) /\ Complete)
            \/ PrintT("REJECTED") /\ FALSE
=============================================================================
