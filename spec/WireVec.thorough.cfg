CONSTANT Tier = "thorough"
INIT Init
NEXT Next
