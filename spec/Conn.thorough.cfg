SPECIFICATION Spec
CONSTANTS Users = {"r", "w"} NHosts = 3 NEps = 2 MaxBreaks = 3 MaxFails = 8 MaxCalls = 6 StaleCheck = TRUE
INVARIANTS TypeOK RotationAndPauses MutexOK OneReplacementPerLoss NoReconnectWhileHealthy Recovers
CHECK_DEADLOCK FALSE
