------------------------------ MODULE TracePid ------------------------------
(* C08: every call recorded from the REAL packet_id_allocator (env TRACE) must *)
(* be the step PidAlloc takes: same return value, same interval list.  used   *)
(* is not tracked here (65535-element sets); that the interval algorithm      *)
(* means "least identifier not in use" is what PidAlloc.cfg checks            *)
(* exhaustively (Refinement, AllocReturnsLeast).                              *)
EXTENDS Integers, Sequences, TLC, Json, IOUtils

MaxPid == 65535
VARIABLES iv, used, last          \* PidAlloc's variables (used/last unused here)
P == INSTANCE PidAlloc

Ev == ndJsonDeserialize(IOEnv.TRACE)
VARIABLE i

Logged(r) == [k \in 1..Len(r.iv) |-> P!Iv(r.iv[k][1], r.iv[k][2])]

Init == i = 1 /\ iv = <<P!Iv(MaxPid, 0)>> /\ used = {} /\ last = [op |-> "init", arg |-> 0, ret |-> 0]

Step(r) ==
    CASE r.op = "reset" -> [iv |-> <<P!Iv(MaxPid, 0)>>, ok |-> {}]
      [] r.op = "alloc" -> LET a == P!AllocOf(iv) IN
                           [iv |-> a.iv,
                            ok |-> (IF a.ret # r.r THEN {"C08_a_AllocateNotLeastFree"} ELSE {})
                                   \cup (IF a.iv # Logged(r) THEN {"C08_s_IntervalListDiffers"} ELSE {})
                                   \cup (IF r.r = 0 /\ iv # << >> THEN {"C08_d_OverrunWhileIdsFree"} ELSE {})]
      [] r.op = "free"  -> LET f == P!FreeOf(iv, r.p) IN
                           [iv |-> f, ok |-> IF f # Logged(r) THEN {"C08_s_IntervalListDiffers"} ELSE {}]

Next == /\ i <= Len(Ev)
        /\ LET s == Step(Ev[i]) IN
           /\ \A cl \in s.ok : PrintT("VIOL " \o ToString(i) \o " " \o cl)
           \* after a disagreement follow the implementation, so that the rest of the trace is still checked
           /\ iv' = IF s.ok = {} THEN s.iv ELSE Logged(Ev[i])
        /\ i' = i + 1 /\ UNCHANGED <<used, last>>
Spec == Init /\ [][Next]_<<i, iv, used, last>>

\* the structural invariant of the list, on the implementation's own states
Structure == /\ \A k \in DOMAIN iv : iv[k].s > iv[k].e /\ iv[k].e >= 0 /\ iv[k].s <= MaxPid
             /\ \A k \in 1..(Len(iv) - 1) : iv[k].e > iv[k + 1].s
Accepted == \/ TLCGet("stats").diameter - 1 = Len(Ev)
            \/ PrintT("REJECTED") /\ FALSE
=============================================================================
