------------------------------ MODULE TracePid ------------------------------
(* C08 on the REAL packet_id_allocator (call records, env TRACE).              *)
(* PROPERTY level (lines "VIOL"): whatever the allocation policy and the data  *)
(* structure, allocate() must return an identifier of 1..65535 that is not in  *)
(* use, and 0 only when none is free.  The identifiers in use are tracked here *)
(* from the calls alone (`mine`: the free ones as a normalised interval list,  *)
(* maintained with the specification's own FreeOf / Take).                     *)
(* DESIGN level (lines "DEV", reported as CONFORMANCE-DEVIATION, never as a    *)
(* violation): the call is the step PidAlloc.tla takes - least free identifier, *)
(* same interval list.  That the interval algorithm means "least identifier    *)
(* not in use" is what PidAlloc.cfg checks exhaustively.                       *)
EXTENDS Integers, Sequences, TLC, Json, IOUtils

MaxPid == 65535
VARIABLES iv, used, last          \* PidAlloc's variables (used/last unused here)
P == INSTANCE PidAlloc

Ev == ndJsonDeserialize(IOEnv.TRACE)
VARIABLES i, mine

Logged(r) == [k \in 1..Len(r.iv) |-> P!Iv(r.iv[k][1], r.iv[k][2])]

Init == i = 1 /\ iv = <<P!Iv(MaxPid, 0)>> /\ mine = <<P!Iv(MaxPid, 0)>> /\ used = {} /\ last = [op |-> "init", arg |-> 0, ret |-> 0]

\* interval [s, e] stands for the free identifiers e+1 .. s
IsFree(v, p) == \E k \in DOMAIN v : v[k].e < p /\ p <= v[k].s
Take(v, p) ==
    LET k == CHOOSE k \in DOMAIN v : v[k].e < p /\ p <= v[k].s
        hi == IF p < v[k].s THEN <<P!Iv(v[k].s, p)>> ELSE << >>          \* p+1 .. s
        lo == IF v[k].e < p - 1 THEN <<P!Iv(p - 1, v[k].e)>> ELSE << >>  \* e+1 .. p-1
    IN SubSeq(v, 1, k - 1) \o hi \o lo \o SubSeq(v, k + 1, Len(v))

\* result: new model list, new own free list, violations, deviations
Step(r) ==
    CASE r.op = "reset" -> [iv |-> <<P!Iv(MaxPid, 0)>>, mine |-> <<P!Iv(MaxPid, 0)>>, v |-> {}, d |-> {}]
      [] r.op = "alloc" -> LET a == P!AllocOf(iv) IN
                           [iv |-> a.iv,
                            mine |-> IF r.r # 0 /\ IsFree(mine, r.r) THEN Take(mine, r.r) ELSE mine,
                            v |-> (IF r.r = 0 /\ mine # << >> THEN {"C08_d_OverrunWhileIdsFree"} ELSE {})
                                  \cup (IF r.r # 0 /\ (r.r < 1 \/ r.r > MaxPid) THEN {"C08_b_IdOutOfRange"} ELSE {})
                                  \cup (IF r.r >= 1 /\ r.r <= MaxPid /\ ~IsFree(mine, r.r) THEN {"C08_b_AllocatedIdInUse"} ELSE {}),
                            d |-> (IF a.ret # r.r THEN {"alloc:not-least-free"} ELSE {})
                                  \cup (IF a.iv # Logged(r) THEN {"alloc:interval-list-differs"} ELSE {})]
      [] r.op = "free"  -> LET f == P!FreeOf(iv, r.p) IN
                           [iv |-> f, mine |-> IF IsFree(mine, r.p) THEN mine ELSE P!FreeOf(mine, r.p), v |-> {},
                            d |-> IF f # Logged(r) THEN {"free:interval-list-differs"} ELSE {}]

Next == /\ i <= Len(Ev)
        /\ LET s == Step(Ev[i]) IN
           /\ \A cl \in s.v : PrintT("VIOL " \o ToString(i) \o " " \o cl)
           /\ \A cl \in s.d : PrintT("DEV " \o ToString(i) \o " " \o cl)
           \* after a disagreement follow the implementation, so that the rest of the trace is still checked
           /\ iv' = IF s.d = {} THEN s.iv ELSE Logged(Ev[i])
           /\ mine' = s.mine
        /\ i' = i + 1 /\ UNCHANGED <<used, last>>
Spec == Init /\ [][Next]_<<i, iv, mine, used, last>>

Accepted == \/ TLCGet("stats").diameter - 1 = Len(Ev)
            \/ PrintT("REJECTED") /\ FALSE
=============================================================================
