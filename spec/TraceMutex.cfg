SPECIFICATION Spec
INVARIANT AtMostOneHolder
INVARIANT GrantsInArrivalOrder
POSTCONDITION Accepted
CHECK_DEADLOCK FALSE
