SPECIFICATION Spec
CONSTANT MaxPid = 6
INVARIANT Structure
INVARIANT Refinement
INVARIANT LeastFree
INVARIANT AllocReturnsLeast
CHECK_DEADLOCK FALSE
