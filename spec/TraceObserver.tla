--------------------------- MODULE TraceObserver ---------------------------
(* Trace validation: folds the ndjson trace recorded from the real client   *)
(* (file named by the environment variable TRACE) through Observer and      *)
(* prints every property clause an event violates.  One state per line; the *)
(* post-condition demands that every line was consumed.                     *)
EXTENDS Observer, Json, IOUtils

JsonTrace == ndJsonDeserialize(IOEnv.TRACE)

VARIABLES l, o, sc

vars == <<l, o, sc>>

TraceInit == l = 1 /\ o = ObsInit /\ sc = -1

TraceNext ==
    /\ l <= Len(JsonTrace)
    /\ LET e == JsonTrace[l]
           v == Viol(o, e)
           s == IF e.e = "reset" THEN e.sc ELSE sc
       IN /\ (\A cl \in v : PrintT("VIOL " \o ToString(s) \o " " \o ToString(e.n) \o " " \o cl))
          /\ o' = ObsStep(o, e)
          /\ sc' = s
          /\ l' = l + 1

TraceSpec == TraceInit /\ [][TraceNext]_vars

TraceAccepted ==
    \/ TLCGet("stats").diameter - 1 = Len(JsonTrace)
    \/ PrintT(<<"REJECTED", TLCGet("stats").diameter - 1, Len(JsonTrace)>>) /\ FALSE
=============================================================================
