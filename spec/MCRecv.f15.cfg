SPECIFICATION Spec
CONSTANTS
  NMsgs = 2
  QosOf <- Q_22
  MaxFaults = 1
  SessionLoss = TRUE
  ClearAfterRequeue = FALSE
  KeepOldWaiter = FALSE
  CancelOnPublish = FALSE
  SilentLoss = FALSE
  LossyWrites = FALSE
INVARIANT Qos2AtMostOnce
INVARIANT CompletedIsDelivered
INVARIANT NoPubrelUnanswered
INVARIANT NothingStuck
INVARIANT OnlyOwnRelease
VIEW NoHist
CHECK_DEADLOCK FALSE
