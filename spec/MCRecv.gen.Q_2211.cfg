SPECIFICATION Spec
CONSTANTS
  NMsgs = 4
  QosOf <- Q_2211
  MaxFaults = 2
  SessionLoss = TRUE
  ClearAfterRequeue = TRUE
  KeepOldWaiter = FALSE
  CancelOnPublish = TRUE
  SilentLoss = FALSE
  LossyWrites = FALSE
INVARIANT EmitScript
VIEW NoHist
CHECK_DEADLOCK FALSE
