-------------------------------- MODULE Conn --------------------------------
(***************************************************************************)
(* Implementation-shaped specification of how the client gets and keeps a  *)
(* connection (C10 rotation / pauses, C11 one reconnect at a time):        *)
(*   autoconnect_stream   _stream_ptr (replaced only after a successful    *)
(*                        handshake), _conn_mtx, _connect_timer            *)
(*   read_op / write_op   an I/O operation remembers the stream it ran on; *)
(*                        when it fails it calls async_reconnect(stream)   *)
(*   reconnect_op         on_locked: client closed -> aborted; the stream  *)
(*                        is no longer the current one -> try_again (some- *)
(*                        body else reconnected meanwhile); otherwise      *)
(*                        next endpoint -> TCP connect + MQTT handshake    *)
(*                        under one 5 s timer, endpoint after endpoint,    *)
(*                        host after host; exponential_backoff is a member *)
(*                        of the operation (starts at 1 s for every        *)
(*                        reconnect_op, doubles up to 16 s, +-0.5 s)       *)
(*   endpoints/resolve_op _current_host survives reconnect_ops; at the end *)
(*                        of the list it is reset to -1 and try_again is   *)
(*                        reported (the only place a pause starts)         *)
(*                                                                         *)
(* The transition relation is written as operators on a state RECORD that  *)
(* return sets of labelled successors, so that TraceConn.tla can fold the  *)
(* very same relation over the events recorded from the real client.       *)
(* Labels that are <<"tau", ...>> are internal steps (not in the traces).  *)
(*                                                                         *)
(* StaleCheck = FALSE drops the "s != _owner._stream_ptr" test of          *)
(* reconnect_op::on_locked: TLC then shows a healthy connection being      *)
(* replaced (OneReplacementPerLoss).                                       *)
(***************************************************************************)
EXTENDS Integers, Sequences, FiniteSets, TLC

CONSTANTS
    Users,      \* the operations that use the stream: {"r", "w"} = the read loop and the writer
    NHosts,     \* brokers in the list            (initial state; TraceConn takes both from the recorded configuration)
    NEps,       \* endpoints every host name resolves to
    MaxBreaks,  \* bound on connection losses     (model checking only; -1: unbounded)
    MaxFails,   \* bound on failed resolutions / connects / handshakes   (-1: unbounded)
    MaxCalls,   \* bound on async_run / cancel / async_disconnect calls     (-1: unbounded)
    StaleCheck

MaxExp == 4

VARIABLE st
vars == <<st>>

Fresh(client, nh, ne) ==
    [client |-> client,                       \* "idle" | "open" | "closing" | "closed" (fresh service next) | "svcclosed" (same service next)
     nh |-> nh, ne |-> ne,                    \* brokers in the list, endpoints per broker
     gen |-> 0, alive |-> FALSE,              \* replace count of _stream_ptr; the current stream is connected and healthy
     ust |-> [u \in Users |-> "idle"],        \* "idle" | "io" | "lockq" | "holder" | "stopped"
     us |-> [u \in Users |-> 0],              \* the stream generation the user's operation runs on
     lockq |-> << >>, holder |-> "none",      \* _conn_mtx
     pc |-> "none",                           \* reconnect_op of the holder: none | next | resolving | tcp | tcpwait | hs | backoff
     cur |-> -1, ep |-> 0, exp |-> 0,         \* _current_host, endpoint being tried, backoff exponent of this reconnect_op
     breaks |-> 0, fails |-> 0, calls |-> 0, svcc |-> 0,
     \* ghosts
     lastHost |-> -1,                         \* host of the latest resolution
     paused |-> FALSE, pexp |-> 0,            \* a pause was taken since then, with this exponent
     tmark |-> 0,                             \* (trace validation) time at which the pause began
     bad |-> {}]

T(l, s) == [l |-> l, s |-> s]
\* an application call (counted only when the model checker bounds them)
App(l, s0, s1) == IF MaxCalls < 0 THEN {T(l, s1)} ELSE IF s0.calls < MaxCalls THEN {T(l, [s1 EXCEPT !.calls = s0.calls + 1])} ELSE {}
Min(a, b) == IF a < b THEN a ELSE b
Bounded(n, max) == max < 0 \/ n < max

---------------------------------------------------------------------------
(* application *)
Run(s) ==
    IF s.client = "idle" THEN App(<<"run">>, s, [s EXCEPT !.client = "open"])
    ELSE IF s.client = "closed" THEN App(<<"run">>, s, [Fresh("open", s.nh, s.ne) EXCEPT !.breaks = s.breaks, !.fails = s.fails, !.bad = s.bad])   \* a fresh service
    ELSE IF s.client = "svcclosed" THEN App(<<"run">>, s, [s EXCEPT !.client = "open", !.ust = [u \in Users |-> "idle"]])    \* the same service, re-opened
    ELSE {}

\* mqtt_client::cancel(), destruction: the stream is closed, lock waiters and the connect timer are cancelled;
\* every pending step of the reconnect_op then ends with operation_aborted
Stopped(s) == [s EXCEPT !.client = "closed", !.alive = FALSE, !.ust = [u \in Users |-> "stopped"],
                        !.lockq = << >>, !.holder = "none", !.pc = "none"]
Cancel(s) == IF s.client \in {"open", "closing", "svcclosed"} THEN App(<<"cancel">>, s, Stopped(s)) ELSE {}
\* terminal per-operation cancellation: client_service::cancel() of the SAME service; async_run re-opens it later
\* (_current_host and the replace count survive)
SvcCancel(s) == IF s.client = "open" THEN App(<<"svc_cancel">>, s, [Stopped(s) EXCEPT !.client = "svcclosed", !.svcc = IF MaxCalls < 0 THEN @ ELSE @ + 1]) ELSE {}
\* async_disconnect: the old service goes on (it may even reconnect) until the DISCONNECT is written or 5 s are over
Disconnect(s) == IF s.client = "open" THEN App(<<"disc">>, s, [s EXCEPT !.client = "closing"]) ELSE {}
DiscDone(s) == IF s.client = "closing" THEN {T(<<"tau", "disc_done">>, Stopped(s))} ELSE {}

Open(s) == s.client \in {"open", "closing"}

---------------------------------------------------------------------------
(* the users of the stream *)
StartIO(s, u) ==
    IF Open(s) /\ s.ust[u] = "idle" THEN {T(<<"tau", "io">>, [s EXCEPT !.ust[u] = "io", !.us[u] = s.gen])} ELSE {}
IOOk(s, u) ==
    IF s.ust[u] = "io" /\ s.us[u] = s.gen /\ s.alive THEN {T(<<"tau", "io_ok">>, [s EXCEPT !.ust[u] = "idle"])} ELSE {}
\* not_connected / reset / eof / timed_out / operation_aborted (the stream was replaced under it): async_reconnect(stream)
IOFail(s, u) ==
    IF Open(s) /\ s.ust[u] = "io" /\ (s.us[u] # s.gen \/ ~s.alive)
    THEN {T(<<"tau", "io_fail">>, [s EXCEPT !.ust[u] = "lockq", !.lockq = Append(s.lockq, u)])} ELSE {}
\* the network / the broker / the keep-alive timeout ends the connection
Break(s) ==
    IF s.alive /\ Bounded(s.breaks, MaxBreaks) THEN {T(<<"tau", "break">>, [s EXCEPT !.alive = FALSE, !.breaks = IF MaxBreaks < 0 THEN @ ELSE @ + 1])} ELSE {}

---------------------------------------------------------------------------
(* reconnect_op *)
Locked(s) ==
    IF s.holder = "none" /\ s.lockq # << >> THEN
        LET u == Head(s.lockq) s1 == [s EXCEPT !.lockq = Tail(s.lockq)] IN
        IF StaleCheck /\ s.us[u] # s.gen
        THEN {T(<<"tau", "stale">>, [s1 EXCEPT !.ust[u] = "idle"])}                      \* complete(try_again): the request is re-issued
        ELSE {T(<<"tau", "locked">>, [s1 EXCEPT !.holder = u, !.ust[u] = "holder", !.pc = "next", !.exp = 0])}
    ELSE {}

\* resolve_op::perform
NextEndpoint(s) ==
    IF s.pc # "next" THEN {}
    ELSE IF s.cur + 1 >= s.nh
    THEN {T(<<"tau", "wrap">>, [s EXCEPT !.cur = -1, !.pc = "backoff", !.pexp = s.exp, !.exp = Min(s.exp + 1, MaxExp), !.paused = TRUE])}
    ELSE LET h == s.cur + 1
             order == IF s.lastHost # -1 /\ h # (s.lastHost + 1) % s.nh THEN {"NotNextBroker"} ELSE {}
             pause == IF s.paused # (s.lastHost = s.nh - 1) THEN {"PauseNotAtWrapAround"} ELSE {}
         IN {T(<<"resolve", h>>, [s EXCEPT !.cur = h, !.pc = "resolving", !.lastHost = h, !.paused = FALSE, !.bad = @ \cup order \cup pause])}

ResolveEnd(s) ==
    IF s.pc # "resolving" THEN {}
    ELSE {T(<<"resolve_end", TRUE>>, [s EXCEPT !.pc = "tcp", !.ep = 1])}
         \cup (IF Bounded(s.fails, MaxFails) THEN {T(<<"resolve_end", FALSE>>, [s EXCEPT !.pc = "next", !.fails = IF MaxFails < 0 THEN @ ELSE @ + 1])} ELSE {})

\* this endpoint is given up: the next endpoint of the host, else the next host
EpFail(s) == IF s.ep < s.ne THEN [s EXCEPT !.pc = "tcp", !.ep = @ + 1, !.fails = IF MaxFails < 0 THEN @ ELSE @ + 1] ELSE [s EXCEPT !.pc = "next", !.fails = IF MaxFails < 0 THEN @ ELSE @ + 1]

Attempt(s) == IF s.pc = "tcp" THEN {T(<<"attempt", s.cur, s.ep>>, [s EXCEPT !.pc = "tcpwait"])} ELSE {}
AttemptEnd(s) ==
    IF s.pc # "tcpwait" THEN {}
    ELSE {T(<<"attempt_end", TRUE>>, [s EXCEPT !.pc = "hs"])}
         \cup (IF Bounded(s.fails, MaxFails) THEN {T(<<"attempt_end", FALSE>>, EpFail(s))} ELSE {})
\* CONNECT / (AUTH) / CONNACK under the same 5 s timer
HsOk(s) ==
    IF s.pc = "hs" THEN {T(<<"tau", "hs_ok">>, [s EXCEPT !.gen = @ + 1, !.alive = TRUE, !.pc = "none", !.holder = "none",
                                                           !.ust[s.holder] = "idle"])} ELSE {}
HsFail(s) == IF s.pc = "hs" /\ Bounded(s.fails, MaxFails) THEN {T(<<"tau", "hs_fail">>, EpFail(s))} ELSE {}
BackoffFires(s) == IF s.pc = "backoff" THEN {T(<<"tau", "backoff_fires">>, [s EXCEPT !.pc = "next"])} ELSE {}

---------------------------------------------------------------------------
Silent(s) ==
    UNION {StartIO(s, u) \cup IOOk(s, u) \cup IOFail(s, u) : u \in Users}
    \cup Break(s) \cup Locked(s) \cup HsOk(s) \cup HsFail(s) \cup BackoffFires(s) \cup DiscDone(s)
    \cup {t \in NextEndpoint(s) : t.l[1] = "tau"}
Visible(s) ==
    Run(s) \cup Cancel(s) \cup SvcCancel(s) \cup Disconnect(s) \cup {t \in NextEndpoint(s) : t.l[1] # "tau"}
    \cup ResolveEnd(s) \cup Attempt(s) \cup AttemptEnd(s)
Succ(s) == Silent(s) \cup Visible(s)

Init == st = Fresh("idle", NHosts, NEps)
Next == \E t \in Succ(st) : st' = t.s
Spec == Init /\ [][Next]_vars

---------------------------------------------------------------------------
TypeOK == st.cur \in -1..(st.nh - 1) /\ st.exp \in 0..MaxExp /\ st.ep \in 0..st.ne
\* C10: brokers are tried in list order; a pause is taken exactly when the list wraps around
RotationAndPauses == st.bad = {}
\* C11: conn_mtx - one reconnect_op at a time, held exactly while it runs
MutexOK ==
    /\ (st.holder = "none") = (st.pc = "none")
    /\ \A u \in Users : (st.ust[u] = "holder") = (st.holder = u)
    /\ \A u \in Users : (st.ust[u] = "lockq") = (\E i \in DOMAIN st.lockq : st.lockq[i] = u)
    /\ \A i, j \in DOMAIN st.lockq : st.lockq[i] = st.lockq[j] => i = j
\* a healthy connection is never replaced: every replacement of the stream answers one loss (or the initial connect)
OneReplacementPerLoss == st.gen <= st.breaks + st.svcc + 1
NoReconnectWhileHealthy == st.pc # "none" => ~st.alive
\* whenever nothing but successful I/O, a new loss or an application call can happen (the environment's failures are
\* bounded), an open client is connected and nobody waits for the lock; a closed one has no operation left
Progress(s) == {t \in Silent(s) : t.l[2] \notin {"io_ok", "break"}} \cup ResolveEnd(s) \cup Attempt(s) \cup AttemptEnd(s)
                 \cup {t \in NextEndpoint(s) : t.l[1] # "tau"}
Recovers == Progress(st) = {} =>
    /\ st.client = "open" => st.alive /\ st.holder = "none" /\ st.lockq = << >>
    /\ st.client = "closed" => \A u \in Users : st.ust[u] = "stopped"
=============================================================================
