SPECIFICATION Spec
CONSTANTS Ks = {0, 1, 2, 3, 5} Latency = 2 MaxTime = 40 Rearm = TRUE
INVARIANTS PingOnTime NeverEarly SilenceBounded Zero
CHECK_DEADLOCK FALSE
