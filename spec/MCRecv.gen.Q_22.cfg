SPECIFICATION Spec
CONSTANTS
  NMsgs = 2
  QosOf <- Q_22
  MaxFaults = 2
  SessionLoss = TRUE
  ClearAfterRequeue = TRUE
  KeepOldWaiter = FALSE
  CancelOnPublish = TRUE
  SilentLoss = FALSE
  LossyWrites = FALSE
INVARIANT EmitScript
VIEW NoHist
CHECK_DEADLOCK FALSE
