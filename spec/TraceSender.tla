----------------------------- MODULE TraceSender -----------------------------
(* Component conformance: the internal events the REAL async_sender / replies   *)
(* report through the guarded hooks (events "h" of a recorded trace, env TRACE) *)
(* must be steps of the functions the implementation-shaped model is built from *)
(* (SenderCore!FormBatch / TakeQ / StableSort, the waiter / fast-reply tables). *)
(* A deviation is NOT a property violation by itself (a maintainer may change   *)
(* batch boundaries or bookkeeping without breaking a listed property); it says *)
(* that the code is no longer the design the model checker examined, and where. *)
(* Output: one line "DEV <scenario> <event> <what>" per first deviation of a    *)
(* scenario; checking resumes at the next scenario.                             *)
EXTENDS SenderCore, TLC, Json, IOUtils, FiniteSets

Ev == ndJsonDeserialize(IOEnv.TRACE)

VARIABLES i, s, sc, on

Init0 == [wq |-> << >>, wip |-> FALSE, batch |-> << >>, quota |-> MAXLIMIT, limit |-> MAXLIMIT,
          waiters |-> << >>, fast |-> << >>, rm |-> MAXLIMIT, resending |-> FALSE]

Init == i = 1 /\ s = Init0 /\ sc = -1 /\ on = TRUE

Req(serial, flags) == [serial |-> serial, thr |-> (flags % 2) = 1, prio |-> ((flags \div 2) % 2) = 1, term |-> ((flags \div 4) % 2) = 1]
RemoveFirst(q, code, pid) ==
    LET k == CHOOSE k \in DOMAIN q : q[k].code = code /\ q[k].pid = pid /\ \A j \in 1..(k - 1) : ~(q[j].code = code /\ q[j].pid = pid)
    IN SubSeq(q, 1, k - 1) \o SubSeq(q, k + 1, Len(q))
Has(q, code, pid) == \E k \in DOMAIN q : q[k].code = code /\ q[k].pid = pid
B(x) == IF x THEN 1 ELSE 0

\* result: [s |-> next state, d |-> set of deviation names]
Hook(e) ==
    CASE e.k = "send" ->
            LET q == Append(s.wq, Req(e.a, e.b)) IN
            [s |-> [s EXCEPT !.wq = q],
             d |-> (IF e.c # Len(q) THEN {"send:queue-length"} ELSE {}) \cup (IF e.d # B(s.wip) THEN {"send:write-in-progress"} ELSE {})]
      [] e.k = "batch" ->
            LET f == FormBatch(s.wq, s.quota, s.limit) IN
            [s |-> [s EXCEPT !.wip = TRUE, !.batch = f.b, !.wq = f.r, !.quota = f.qt],
             d |-> (IF s.wip /\ ~s.resending THEN {"batch:while-write-in-progress"} ELSE {})
                   \cup (IF Len(f.b) # e.a THEN {"batch:size"} ELSE {})
                   \cup (IF Len(f.r) # e.b THEN {"batch:left-in-queue"} ELSE {})
                   \cup (IF f.qt # e.c THEN {"batch:quota"} ELSE {})
                   \cup (IF s.limit # e.d THEN {"batch:limit"} ELSE {})]
      [] e.k = "clear_fast" ->
            [s |-> [s EXCEPT !.fast = << >>], d |-> IF Len(s.fast) # e.a THEN {"clear_fast:count"} ELSE {}]
      [] e.k = "write_done" ->
            [s |-> [s EXCEPT !.wip = FALSE, !.batch = << >>, !.wq = IF e.c = 1 THEN s.batch \o @ ELSE @],
             d |-> (IF ~s.wip THEN {"write_done:no-write-in-progress"} ELSE {}) \cup (IF Len(s.batch) # e.b THEN {"write_done:batch-size"} ELSE {})]
      [] e.k = "resend_call" ->
            [s |-> s, d |-> IF e.a # Len(s.wq) THEN {"resend_call:queue-length"} ELSE {}]
      [] e.k = "resend_begin" ->
            [s |-> [s EXCEPT !.wip = TRUE, !.resending = TRUE, !.wq = << >>],
             d |-> (IF s.wip THEN {"resend_begin:write-in-progress"} ELSE {}) \cup (IF e.a # Len(s.wq) THEN {"resend_begin:queue-length"} ELSE {})]
      [] e.k = "resend_unanswered" ->
            [s |-> [s EXCEPT !.waiters = << >>], d |-> IF e.a # Len(s.waiters) THEN {"resend_unanswered:count"} ELSE {}]
      [] e.k = "resend_end" ->
            LET q == StableSort(s.wq) IN
            [s |-> [s EXCEPT !.wq = q, !.wip = FALSE, !.resending = FALSE, !.quota = e.b, !.limit = e.c],
             d |-> (IF e.a # Len(q) THEN {"resend_end:queue-length"} ELSE {})
                   \cup (IF e.b # e.c THEN {"resend_end:quota-not-reset-to-limit"} ELSE {})
                   \cup (IF e.c # s.rm THEN {"resend_end:limit-differs-from-announced-receive-maximum"} ELSE {})]
      [] e.k = "throttled_done" ->
            [s |-> [s EXCEPT !.quota = e.a],
             d |-> (IF ~s.resending /\ e.a # s.quota + 1 THEN {"throttled_done:quota"} ELSE {})
                   \cup (IF ~s.resending /\ e.a > e.b THEN {"throttled_done:quota-above-limit"} ELSE {})]
      [] e.k = "wait" ->
            IF e.c = 1
              THEN [s |-> [s EXCEPT !.fast = IF Has(s.fast, e.a, e.b) THEN RemoveFirst(s.fast, e.a, e.b) ELSE @],
                    d |-> IF ~Has(s.fast, e.a, e.b) THEN {"wait:fast-reply-unknown"} ELSE {}]
              ELSE [s |-> [s EXCEPT !.waiters = Append(IF Has(@, e.a, e.b) THEN RemoveFirst(@, e.a, e.b) ELSE @, [code |-> e.a, pid |-> e.b])],
                    d |-> IF Has(s.fast, e.a, e.b) THEN {"wait:fast-reply-ignored"} ELSE {}]
      [] e.k = "dispatch" ->
            IF Has(s.waiters, e.a, e.b)
              THEN [s |-> [s EXCEPT !.waiters = RemoveFirst(@, e.a, e.b)], d |-> IF e.c # 1 THEN {"dispatch:waiter-missed"} ELSE {}]
              ELSE [s |-> [s EXCEPT !.fast = Append(@, [code |-> e.a, pid |-> e.b])], d |-> IF e.c # 0 THEN {"dispatch:unknown-waiter"} ELSE {}]
      [] e.k = "cancel_unanswered" ->
            [s |-> [s EXCEPT !.waiters = << >>], d |-> IF e.a # Len(s.waiters) THEN {"cancel_unanswered:count"} ELSE {}]
      [] e.k = "update_session" ->
            \* session not present: pending PUBREL waiters (0x60 = 96) are dropped
            [s |-> IF e.a = 0 THEN [s EXCEPT !.waiters = SelectSeq(@, LAMBDA w : w.code # 96)] ELSE s, d |-> {}]
      [] OTHER -> [s |-> s, d |-> {}]

Next ==
    /\ i <= Len(Ev)
    /\ LET e == Ev[i] IN
       IF e.e = "reset" THEN s' = Init0 /\ sc' = e.sc /\ on' = TRUE
       ELSE IF e.e \in {"cancel_all", "destroy"} \/ (e.e = "call" /\ e.kind = "disc") \/ (e.e = "cancel_op" /\ e.type = "terminal")
         THEN s' = s /\ sc' = sc /\ on' = FALSE       \* the client swaps in a fresh service: stop following this one
       ELSE IF e.e = "b_send" /\ e.type = "CONNACK" /\ e.rc < 128 THEN s' = [s EXCEPT !.rm = e.rm] /\ sc' = sc /\ on' = on
       ELSE IF e.e = "h" /\ on THEN
            LET r == Hook(e) IN
            /\ \A x \in r.d : PrintT("DEV " \o ToString(sc) \o " " \o ToString(e.n) \o " " \o x)
            /\ s' = r.s /\ sc' = sc /\ on' = (r.d = {})
       ELSE s' = s /\ sc' = sc /\ on' = on
    /\ i' = i + 1
Spec == Init /\ [][Next]_<<i, s, sc, on>>

Accepted == \/ TLCGet("stats").diameter - 1 = Len(Ev)
            \/ PrintT("REJECTED") /\ FALSE
=============================================================================
