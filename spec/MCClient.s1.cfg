SPECIFICATION Spec
CONSTANTS
  NOps = 3
  KindOf <- K_121
  RMs = {1, 65535}
  MaxFaults = 2
  MaxCancels = 1
  RecRcs = {0, 128}
  QuotaResetFirst = FALSE
  ResendGuard = FALSE
  Observe = FALSE
INVARIANT TypeOK
INVARIANT DoneWhenQuiet
INVARIANT InvReceiveMaximum
INVARIANT InvPublishOrder
INVARIANT InvTruthful
INVARIANT InvNoPublishAfterRelease
INVARIANT InvPidUnique
INVARIANT InvPidNonZero
INVARIANT InvAbortOnlyIfCancelled
VIEW ViewEngine
CHECK_DEADLOCK FALSE
