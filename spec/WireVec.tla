------------------------------ MODULE WireVec ------------------------------
(***************************************************************************)
(* Vector enumeration for properties C17 / C18: a bounded, boundary-        *)
(* oriented set of MQTT 5 packet records per packet type and direction,    *)
(* each written as one JSON line with the abstract fields AND the bytes    *)
(* Wire!Encode gives for them (run-length form).                           *)
(*                                                                         *)
(* One TLC process enumerates one (packet type, direction, part); it is    *)
(* selected by environment variables (see tools/stage_wire.py):            *)
(*    PTYPE  packet type name                                              *)
(*    DIR    "c2s" (the client writes it, C17) or "s2c" (the broker writes *)
(*           it, C18)                                                      *)
(*    OUT    ndjson file to write                                          *)
(*    PARTK, PARTN   this process handles the vectors whose index is       *)
(*           PARTK modulo PARTN                                            *)
(* The tier (sizes of the sample sets) is the CONSTANT Tier of the cfg.    *)
(*                                                                         *)
(* Every vector is checked here against the reference itself:              *)
(*    PacketOK(pkt), FormOK(pkt, form)            (admissible input)       *)
(*    Decode(Encode(pkt, form)) = [pkt, form]     (the reference agrees    *)
(*                                                 with itself)            *)
(* so a vector that reaches the driver is a well-formed MQTT 5 packet.     *)
(*                                                                         *)
(* Families (field "fam" of a vector, in this order of precedence):        *)
(*   fields    fixed-header flags, packet identifiers, reason codes,       *)
(*             connect flags, subscription options, forms                  *)
(*   presence  subsets of the properties allowed for the packet.  thorough: *)
(*             EVERY subset for every packet type (2^17 for CONNACK) and   *)
(*             every CONNECT subset x every Will subset; quick: every      *)
(*             subset up to 8 properties, otherwise the subsets of size    *)
(*             <= 2 and their complements (pairwise present/absent)        *)
(*   values    every sample value of every property, alone and inside the  *)
(*             complete property set                                       *)
(*   pairs     two properties, sample value x sample value (thorough: also *)
(*             three properties with small samples)                        *)
(*   lists     0..3 User Properties / Subscription Identifiers / topics /  *)
(*             reason codes, repeated names, interleaving, reverse order   *)
(*   strings   lengths of the non-property strings (topic, payload,        *)
(*             client identifier, user name, password, will, filters)      *)
(*   lengths   Remaining Length and Property Length hitting the Variable   *)
(*             Byte Integer boundaries                                     *)
(*   content   binary data with the bytes 0x00 / 0x7F / 0x80 / 0xFF and   *)
(*             multi-byte UTF-8 in every string-valued place               *)
(***************************************************************************)
EXTENDS Wire, FiniteSets, TLC, Json, IOUtils, SequencesExt

CONSTANT Tier                       \* "quick" or "thorough"

T   == IOEnv.PTYPE
Dir == IOEnv.DIR
Thorough == Tier = "thorough"

Tup(f) == << >> \o f                \* force the tuple representation

-----------------------------------------------------------------------------
(* TLC-specific care (no change of meaning): TLC tests membership in a set  *)
(* it has already sorted by binary search and in any other set by linear    *)
(* search, and it builds A \cup B and UNION S by testing every new element   *)
(* against what it has so far.  Cardinality makes TLC sort a set in place.   *)
(* Hence: Nz(S) = S, sorted;  A ++ B = A \cup B with A sorted first;         *)
(* UnionAll(S) = UNION S built from one concatenated sequence.               *)
Nz(Sx) == IF Cardinality(Sx) >= 0 THEN Sx ELSE Sx
A ++ B == Nz(A) \cup B
SeqSet(s) == {s[i] : i \in 1..Len(s)}
UnionAll(SS) == SeqSet(FoldLeft(LAMBDA acc, x : acc \o SetToSeq(x), << >>, SetToSeq(SS)))

(* sample sets *)
SL   == IF Thorough THEN {0, 1, 2, 126, 127, 128, 129, 255, 256, 16382, 16383, 16384, 16385, 32767, 32768, 65534, 65535}
                    ELSE {0, 1, 127, 128, 16383, 16384, 65535}
SLs  == IF Thorough THEN {0, 1, 127, 128, 16384, 65535} ELSE {0, 1, 128, 65535}
U16E == IF Thorough THEN {0, 1, 127, 128, 255, 256, 32767, 32768, 65534, 65535} ELSE {0, 1, 255, 256, 65535}
U16s == IF Thorough THEN {1, 255, 256, 65535} ELSE {1, 256, 65535}
U32E == IF Thorough THEN {<<0, 0>>, <<0, 1>>, <<0, 255>>, <<0, 256>>, <<0, 65535>>, <<1, 0>>, <<255, 65535>>, <<256, 0>>,
                          <<32767, 65535>>, <<32768, 0>>, <<65535, 65534>>, <<65535, 65535>>}
                    ELSE {<<0, 0>>, <<0, 1>>, <<0, 65535>>, <<1, 0>>, <<32767, 65535>>, <<32768, 0>>, <<65535, 65535>>}
U32s == IF Thorough THEN {<<0, 1>>, <<0, 65535>>, <<1, 0>>, <<32768, 0>>, <<65535, 65535>>} ELSE {<<0, 1>>, <<1, 0>>, <<65535, 65535>>}
VBIE == IF Thorough THEN {1, 2, 126, 127, 128, 129, 16382, 16383, 16384, 16385, 2097150, 2097151, 2097152, 2097153,
                          268435454, 268435455}
                    ELSE {1, 127, 128, 16383, 16384, 2097151, 2097152, 268435455}
VBIs == IF Thorough THEN {1, 127, 128, 16383, 16384, 2097151, 2097152, 268435455} ELSE {1, 128, 16384, 2097152, 268435455}
PairLens  == {<<0, 0>>, <<1, 1>>, <<0, 1>>, <<1, 0>>, <<127, 128>>, <<128, 127>>, <<16383, 16384>>, <<16384, 16383>>,
              <<65535, 65535>>, <<0, 65535>>, <<65535, 0>>}
             ++ (IF Thorough THEN {<<a, a>> : a \in SL} ELSE {})
PairLensS == {<<0, 0>>, <<1, 1>>, <<128, 127>>, <<65535, 65535>>}
RLE  == IF Thorough THEN {126, 127, 128, 129, 16382, 16383, 16384, 16385, 2097150, 2097151, 2097152, 2097153}
                    ELSE {127, 128, 16383, 16384, 2097151, 2097152}
PIDE == U16E \ {0}
FullLimit == IF Thorough THEN 20 ELSE 8      \* thorough: every subset for every packet type (CONNACK: 2^17)
Strength  == IF Thorough THEN 3 ELSE 2

(* each string role gets its own letter, so that swapped fields are seen *)
Letter(id) == 65 + id
S(c, n)    == Run(c, n)
K(n) == Run(107, n)     V(n) == Run(118, n)
Topic1 == Canon(Bytes(<<116, 47, 49>>))                 \* "t/1"

Typ(id) ==                                              \* a typical value
    LET ty == PropType(id)
    IN  CASE id = 2 -> <<0, 3600>> [] id = 17 -> <<1, 60>> [] id = 24 -> <<0, 5>> [] id = 39 -> <<1, 0>>
          [] id = 19 -> 30 [] id = 33 -> 10 [] id = 34 -> 7 [] id = 35 -> 3 [] id = 11 -> 5
          [] ty = "byte" -> 1
          [] ty \in {"utf8", "bin"} -> S(Letter(id), 1 + (id % 4))
          [] ty = "pair" -> <<K(1), V(2)>>
Pv(id, v) == [id |-> id, v |-> v]
P(id)     == Pv(id, Typ(id))

Vals(id) ==
    LET ty == PropType(id)
    IN  CASE ty = "byte" -> {0, 1}
          [] ty = "u16"  -> U16E \ (IF id \in {33, 35} THEN {0} ELSE {})
          [] ty = "u32"  -> U32E \ (IF id = 39 THEN {<<0, 0>>} ELSE {})
          [] ty = "vbi"  -> VBIE
          [] ty \in {"utf8", "bin"} -> {S(Letter(id), n) : n \in SL \ (IF id = 8 THEN {0} ELSE {})}
          [] ty = "pair" -> {<<K(l[1]), V(l[2])>> : l \in PairLens}
ValsS(id) ==
    LET ty == PropType(id)
    IN  CASE ty = "byte" -> {0, 1}
          [] ty = "u16"  -> U16s
          [] ty = "u32"  -> U32s
          [] ty = "vbi"  -> VBIs
          [] ty \in {"utf8", "bin"} -> {S(Letter(id), n) : n \in SLs \ (IF id = 8 THEN {0} ELSE {})}
          [] ty = "pair" -> {<<K(l[1]), V(l[2])>> : l \in PairLensS}

-----------------------------------------------------------------------------
(* property sequences for a context ctx (packet type or "WILL") with the    *)
(* allowed identifiers A; vectors list properties in ascending identifier   *)
(* order unless the family is about order                                   *)
Sorted(Sx)  == SetToSortSeq(Sx, <)
PropSeq(Sx) == LET s == Sorted(Sx) IN Tup([i \in 1..Len(s) |-> P(s[i])])

(* Authentication Data needs Authentication Method; AUTH always needs it    *)
Adm(ps, ctx) == IF (ctx = "AUTH" \/ HasProp(ps, 22)) /\ ~HasProp(ps, 21) THEN <<P(21)>> \o ps ELSE ps

UpTo(A, k) == IF k = 0 THEN {{}}
              ELSE IF k = 1 THEN {{}} ++ {{a} : a \in A}
              ELSE IF k = 2 THEN {{}} ++ {{a} : a \in A} ++ {{a, b} : a \in A, b \in A}
              ELSE {{}} ++ {{a} : a \in A} ++ {{a, b} : a \in A, b \in A} ++ {{a, b, c} : a \in A, b \in A, c \in A}
SubsetsFor(A) == IF Cardinality(A) <= FullLimit THEN SUBSET A
                 ELSE LET small == UpTo(A, Strength) IN small ++ {A \ x : x \in small}

PsPresence(A, ctx) == {Adm(PropSeq(x), ctx) : x \in SubsetsFor(A)}

Replace(ps, id, v) == [i \in 1..Len(ps) |-> IF ps[i].id = id THEN Pv(id, v) ELSE ps[i]]
PsValues(A, ctx) ==
    UnionAll({{Adm(<<Pv(id, v)>>, ctx) : v \in Vals(id)} : id \in A})
    ++ UnionAll({{Tup(Replace(PropSeq(A), id, v)) : v \in Vals(id)} : id \in A})

PsPairs(A, ctx) ==                                      \* quick: all x small sample and small x all; thorough: all x all
    UnionAll({   {Adm(<<Pv(ij[1], a), Pv(ij[2], b)>>, ctx) : a \in Vals(ij[1]), b \in (IF Thorough THEN Vals(ij[2]) ELSE ValsS(ij[2]))}
         ++ {Adm(<<Pv(ij[1], a), Pv(ij[2], b)>>, ctx) : a \in ValsS(ij[1]), b \in Vals(ij[2])}
         : ij \in {x \in A \X A : x[1] < x[2]}})

PsTriples(A, ctx) ==                                    \* thorough only: three properties, small samples
    IF ~Thorough THEN {}
    ELSE UnionAll({{Adm(<<Pv(x[1], a), Pv(x[2], b), Pv(x[3], c)>>, ctx) : a \in ValsS(x[1]), b \in ValsS(x[2]), c \in ValsS(x[3])}
                : x \in {y \in A \X A \X A : y[1] < y[2] /\ y[2] < y[3]}})

UP(i) == Pv(38, <<K(i), V(i + 1)>>)
PLSeq == <<<<0, 0>>, <<1, 1>>, <<127, 128>>, <<128, 127>>, <<16383, 16384>>, <<65535, 65535>>, <<0, 65535>>, <<65535, 0>>, <<0, 0>>, <<1, 1>>>>
UPL(l) == Pv(38, <<K(l[1]), V(l[2])>>)
PsUserLists(A, ctx) ==
    LET others == Sorted(A \ {38})
        x1 == IF Len(others) >= 1 THEN <<P(others[1])>> ELSE << >>
        x2 == IF Len(others) >= 2 THEN <<P(others[Len(others)])>> ELSE << >>
    IN  {Adm(ps, ctx) : ps \in
          {<< >>, <<UP(1)>>, <<UP(1), UP(2)>>, <<UP(2), UP(1)>>, <<UP(1), UP(2), UP(3)>>, <<UP(3), UP(2), UP(1)>>,
           <<UP(1), UP(1)>>, <<UP(1), Pv(38, <<K(1), V(3)>>)>>, <<UP(1), UP(1), UP(1)>>,
           <<UP(1)>> \o x1 \o <<UP(2)>> \o x2 \o <<UP(3)>>,                          \* interleaved with other identifiers
           x1 \o <<UP(2), UP(1)>> \o x2}
          ++ {<<UPL(PLSeq[i]), UPL(PLSeq[i + 1])>> : i \in 1..8}
          ++ {<<UPL(PLSeq[i]), UPL(PLSeq[i + 1]), UPL(PLSeq[i + 2])>> : i \in 1..8}}

Rev(s) == [i \in 1..Len(s) |-> s[Len(s) + 1 - i]]
PsOrder(A, ctx) ==                                       \* "no significance in the order" (2.2.2.1)
    LET full == Adm(PropSeq(A), ctx)
        n == Len(full)
    IN  {Tup(Rev(full))} ++ {Tup([i \in 1..n |-> full[((i + k - 1) % n) + 1]]) : k \in 1..(IF n > 1 THEN n - 1 ELSE 0)}

(* a property sequence whose encoded body is exactly L bytes long (L = 0 or *)
(* L >= 5): User Properties of 5 + 65535 + 65535 bytes and one filler       *)
UPFull == Pv(38, <<K(65535), V(65535)>>)
PropsOfLen(L) ==
    LET k == L \div 131075
        rem == L % 131075
        a == IF rem - 5 > 65535 THEN 65535 ELSE rem - 5
    IN  IF L = 0 THEN << >>
        ELSE Tup([i \in 1..k |-> UPFull]) \o (IF rem = 0 THEN << >> ELSE <<Pv(38, <<K(a), V(rem - 5 - a)>>)>>)
PLOK(L) == L = 0 \/ (L % 131075 = 0) \/ (L % 131075 >= 5)

-----------------------------------------------------------------------------
(* packet constructors *)
MkWill(qos, retain, props, topic, payload) ==
    [qos |-> qos, retain |-> retain, props |-> props, topic |-> topic, payload |-> payload]
MkConnect(clean, ka, props, cid, will, user, pass) ==
    [type |-> "CONNECT", clean |-> clean, keepalive |-> ka, props |-> props, cid |-> cid, will |-> will, user |-> user, pass |-> pass]
MkConnack(sp, rc, props) == [type |-> "CONNACK", sp |-> sp, rc |-> rc, props |-> props]
MkPublish(dup, qos, retain, topic, pid, props, payload) ==
    [type |-> "PUBLISH", dup |-> dup, qos |-> qos, retain |-> retain, topic |-> topic, pid |-> pid, props |-> props, payload |-> payload]
MkAck(t, pid, rc, props) == [type |-> t, pid |-> pid, rc |-> rc, props |-> props]
MkFilter(f, qos, nl, rap, rh) == [filter |-> f, qos |-> qos, nl |-> nl, rap |-> rap, rh |-> rh]
MkSubscribe(pid, props, topics) == [type |-> "SUBSCRIBE", pid |-> pid, props |-> props, topics |-> topics]
MkUnsubscribe(pid, props, topics) == [type |-> "UNSUBSCRIBE", pid |-> pid, props |-> props, topics |-> topics]
MkCodes(t, pid, props, codes) == [type |-> t, pid |-> pid, props |-> props, codes |-> codes]
MkRc(t, rc, props) == [type |-> t, rc |-> rc, props |-> props]

Vf(p, f) == [pkt |-> p, form |-> f]
Vx(p)    == Vf(p, "full")
(* every permitted form of p when the broker writes it; the client's form   *)
(* is the library's own choice, one vector suffices there                   *)
AllForms(p) == IF Dir = "s2c" THEN {Vf(p, f) : f \in Forms(p)} ELSE {Vx(p)}

BaseWill == MkWill(1, 0, << >>, S(84, 2), S(80, 3))
F1 == MkFilter(S(102, 3), 1, 0, 0, 0)

(* identifiers allowed in T when travelling in direction Dir *)
Allowed ==
    CASE T = "PUBLISH" /\ Dir = "c2s"    -> PropsOf("PUBLISH") \ {11}       \* [MQTT-3.3.4-6]
      [] T = "DISCONNECT" /\ Dir = "s2c" -> PropsOf("DISCONNECT") \ {17}    \* [MQTT-3.14.2-2]
      [] T \in {"PINGREQ", "PINGRESP"}   -> {}
      [] OTHER -> PropsOf(T)

(* reason codes a sender in direction Dir may use (column "Sent by" of the  *)
(* reason code tables)                                                      *)
Codes ==
    CASE T = "DISCONNECT" /\ Dir = "c2s" -> {0, 4, 128, 129, 130, 131, 144, 147, 148, 149, 150, 151, 152, 153}
      [] T = "DISCONNECT" /\ Dir = "s2c" -> ReasonCodes(T) \ {4}
      [] T = "AUTH" /\ Dir = "c2s" -> {24, 25}
      [] T = "AUTH" /\ Dir = "s2c" -> {0, 24}
      [] OTHER -> ReasonCodes(T)
Rc1 == IF T = "AUTH" THEN 24 ELSE 0                     \* base reason code

(* the base packet of type T carrying the properties ps *)
WithProps(ps) ==
    CASE T = "CONNECT"     -> MkConnect(1, 60, ps, S(99, 3), << >>, << >>, << >>)
      [] T = "CONNACK"     -> MkConnack(0, 0, ps)
      [] T = "PUBLISH"     -> MkPublish(0, 1, 0, Topic1, 1, ps, S(112, 3))
      [] T \in Acks        -> MkAck(T, 1, 0, ps)
      [] T = "SUBSCRIBE"   -> MkSubscribe(1, ps, <<F1>>)
      [] T = "UNSUBSCRIBE" -> MkUnsubscribe(1, ps, <<S(102, 3)>>)
      [] T \in {"SUBACK", "UNSUBACK"} -> MkCodes(T, 1, ps, <<0>>)
      [] T \in {"DISCONNECT", "AUTH"} -> MkRc(T, Rc1, ps)
WithWillProps(ps) ==
    MkConnect(1, 60, <<P(17)>>, S(99, 3), <<MkWill(1, 0, ps, S(84, 2), S(80, 3))>>, << >>, << >>)

HasP == T \notin {"PINGREQ", "PINGRESP"}
IsConnect == T = "CONNECT"
WillA == PropsOf("WILL")

-----------------------------------------------------------------------------
(* families *)
FFields ==
    CASE T = "CONNECT" ->
            {Vx(MkConnect(c, 60, ps, S(99, 3), w, u, pw)) :
                c \in {0, 1},
                w \in {<< >>} ++ {<<MkWill(q, r, << >>, S(84, 2), S(80, 3))>> : q \in 0..2, r \in 0..1},
                u \in {<< >>, <<S(117, 2)>>}, pw \in {<< >>, <<S(119, 4)>>},
                ps \in {<< >>, <<P(17), P(33)>>}}
            ++ {Vx(MkConnect(1, ka, << >>, S(99, 3), << >>, << >>, << >>)) : ka \in U16E}
      [] T = "CONNACK" ->
            {Vx(MkConnack(sp, 0, ps)) : sp \in {0, 1}, ps \in {<< >>, <<P(33)>>}}
            ++ {Vx(MkConnack(0, rc, ps)) : rc \in Codes, ps \in {<< >>, <<P(31)>>, <<P(28), P(31), P(38)>>}}
      [] T = "PUBLISH" ->
            {x \in {Vx(MkPublish(d, q, r, Topic1, IF q = 0 THEN 0 ELSE 1, ps, pl)) :
                        d \in {0, 1}, q \in 0..2, r \in {0, 1},
                        ps \in {<< >>, <<P(1), P(38)>>, PropSeq(Allowed)}, pl \in {<< >>, S(112, 3)}} : PacketOK(x.pkt)}
            ++ {Vx(MkPublish(0, q, 0, Topic1, id, ps, S(112, 3))) : q \in 1..2, id \in PIDE, ps \in {<< >>, <<P(35)>>}}
      [] T \in Acks ->
            UnionAll({AllForms(MkAck(T, id, rc, ps)) : id \in PIDE, rc \in Codes, ps \in {<< >>, <<P(31)>>, <<P(38)>>, <<P(31), P(38)>>}})
      [] T = "SUBSCRIBE" ->
            {Vx(MkSubscribe(1, ps, <<MkFilter(S(102, 3), q, nl, rap, rh)>>)) :
                q \in 0..2, nl \in 0..1, rap \in 0..1, rh \in 0..2, ps \in {<< >>, <<P(11)>>}}
            ++ {Vx(MkSubscribe(id, << >>, <<F1>>)) : id \in PIDE}
      [] T = "UNSUBSCRIBE" ->
            {Vx(MkUnsubscribe(id, ps, <<S(102, 3)>>)) : id \in PIDE, ps \in {<< >>, <<P(38)>>}}
      [] T \in {"SUBACK", "UNSUBACK"} ->
            {Vx(MkCodes(T, id, ps, <<rc>>)) : id \in PIDE, rc \in Codes, ps \in {<< >>, <<P(31)>>}}
      [] T \in {"PINGREQ", "PINGRESP"} -> {Vx([type |-> T])}
      [] T \in {"DISCONNECT", "AUTH"} ->
            UnionAll({AllForms(MkRc(T, rc, Adm(ps, T))) : rc \in Codes, ps \in {<< >>, <<P(31)>>, <<P(38)>>, <<P(31), P(38)>>}})
            ++ (IF Dir = "s2c" THEN UnionAll({AllForms(MkRc(T, rc, << >>)) : rc \in Codes \cap {0}}) ELSE {})

FPresence ==
    IF ~HasP THEN {}
    ELSE {Vx(WithProps(ps)) : ps \in PsPresence(Allowed, T)}
         ++ (IF T = "PUBLISH"                     \* also without a Packet Identifier in front of the properties
               THEN {Vx(MkPublish(0, 0, 1, Topic1, 0, ps, << >>)) : ps \in PsPresence(Allowed, T)} ELSE {})
         ++ (IF IsConnect
               THEN {Vx(WithWillProps(ps)) : ps \in PsPresence(WillA, "WILL")}
                    ++ {Vx(MkConnect(0, 10, ps, S(99, 3), <<BaseWill>>, <<S(117, 2)>>, <<S(119, 4)>>)) : ps \in PsPresence(Allowed, T)}
                    ++ (IF Thorough                      \* every CONNECT subset x every Will subset
                        THEN {Vx(MkConnect(1, 60, ps, S(99, 3), <<MkWill(1, 0, wps, S(84, 2), S(80, 3))>>, << >>, << >>)) :
                                 ps \in PsPresence(Allowed, T), wps \in PsPresence(WillA, "WILL")}
                        ELSE {})
               ELSE {})

FValues ==
    IF ~HasP THEN {}
    ELSE {Vx(WithProps(ps)) : ps \in PsValues(Allowed, T)}
         ++ (IF IsConnect THEN {Vx(WithWillProps(ps)) : ps \in PsValues(WillA, "WILL")} ELSE {})

FPairs ==
    IF ~HasP THEN {}
    ELSE {Vx(WithProps(ps)) : ps \in PsPairs(Allowed, T) ++ PsTriples(Allowed, T)}
         ++ (IF IsConnect THEN {Vx(WithWillProps(ps)) : ps \in PsPairs(WillA, "WILL") ++ PsTriples(WillA, "WILL")} ELSE {})

SubIdSeqs ==
    LET e == Sorted(VBIE)
        n == Len(e)
    IN  {<< >>} ++ {<<Pv(11, a)>> : a \in VBIE} ++ {<<Pv(11, a), Pv(11, b)>> : a \in VBIs, b \in VBIs}
        ++ {<<Pv(11, e[i]), Pv(11, e[(i % n) + 1]), Pv(11, e[((i + 1) % n) + 1])>> : i \in 1..n}
        ++ {<<Pv(11, 1), Pv(11, 1), Pv(11, 1)>>}

FLists ==
    (IF HasP
     THEN {Vx(WithProps(ps)) : ps \in PsUserLists(Allowed, T) ++ PsOrder(Allowed, T)}
          ++ (IF IsConnect THEN {Vx(WithWillProps(ps)) : ps \in PsUserLists(WillA, "WILL") ++ PsOrder(WillA, "WILL")} ELSE {})
     ELSE {})
    ++
    CASE T = "PUBLISH" /\ Dir = "s2c" ->
            {Vx(WithProps(ps)) : ps \in SubIdSeqs}
            ++ {Vx(WithProps(<<P(1)>> \o ps \o <<UP(1)>>)) : ps \in SubIdSeqs}
            ++ {Vx(WithProps(<<Pv(11, 1), UP(1), Pv(11, 128), P(35), Pv(11, 16384), UP(2)>>))}
      [] T = "SUBSCRIBE" ->
            {Vx(MkSubscribe(1, << >>, Tup([i \in 1..n |-> MkFilter(S(101 + i, i), i % 3, i % 2, (i + 1) % 2, (i + 1) % 3)]))) : n \in 1..3}
            ++ {Vx(MkSubscribe(1, <<P(11), UP(1)>>, <<MkFilter(S(102, a), 2, 1, 1, 2), MkFilter(S(103, b), 0, 0, 0, 0)>>)) : a \in SLs \ {0}, b \in SLs \ {0}}
      [] T = "UNSUBSCRIBE" ->
            {Vx(MkUnsubscribe(1, << >>, Tup([i \in 1..n |-> S(101 + i, i)]))) : n \in 1..3}
            ++ {Vx(MkUnsubscribe(1, <<UP(1)>>, <<S(102, a), S(103, b)>>)) : a \in SLs \ {0}, b \in SLs \ {0}}
      [] T \in {"SUBACK", "UNSUBACK"} ->
            LET cs == Sorted(Codes) n == Len(cs)
            IN  {Vx(MkCodes(T, 1, ps, <<cs[i], cs[(i % n) + 1]>>)) : i \in 1..n, ps \in {<< >>, <<P(31), UP(1)>>}}
                ++ {Vx(MkCodes(T, 1, ps, <<cs[i], cs[(i % n) + 1], cs[((i + 1) % n) + 1]>>)) : i \in 1..n, ps \in {<< >>, <<P(31), UP(1)>>}}
                ++ {Vx(MkCodes(T, 1, << >>, Tup([i \in 1..k |-> cs[(i % n) + 1]]))) : k \in {2, 3, 124, 125, 126, 127, 128}}
      [] OTHER -> {}

FStrings ==
    CASE T = "CONNECT" ->
            {Vx(MkConnect(1, 60, << >>, S(99, n), << >>, << >>, << >>)) : n \in SL}
            ++ {Vx(MkConnect(1, 60, << >>, S(99, 1), << >>, <<S(117, n)>>, << >>)) : n \in SL}
            ++ {Vx(MkConnect(1, 60, << >>, S(99, 1), << >>, << >>, <<S(119, n)>>)) : n \in SL}
            ++ {Vx(MkConnect(1, 60, << >>, S(99, 1), <<MkWill(0, 0, << >>, S(84, n), S(80, 1))>>, << >>, << >>)) : n \in SL \ {0}}
            ++ {Vx(MkConnect(1, 60, << >>, S(99, 1), <<MkWill(0, 0, << >>, S(84, 1), S(80, n))>>, << >>, << >>)) : n \in SL}
            ++ {Vx(MkConnect(0, 0, <<P(21)>>, S(99, a), <<MkWill(2, 1, <<P(3)>>, S(84, 1 + b), S(80, c))>>, <<S(117, d)>>, <<S(119, e)>>)) :
                    a \in SLs, b \in {0, 65534}, c \in SLs, d \in SLs, e \in SLs}
      [] T = "PUBLISH" ->
            {Vx(MkPublish(0, q, 0, S(116, n), q, << >>, S(112, m))) : q \in 0..1, n \in SL \ {0}, m \in SL}
            ++ {Vx(MkPublish(0, q, 0, << >>, q, <<P(35)>>, S(112, m))) : q \in 0..1, m \in SLs}       \* empty topic, Topic Alias
            ++ {Vx(MkPublish(0, 2, 1, S(116, n), 65535, <<P(8), UP(1)>>, S(112, m))) : n \in SLs \ {0}, m \in SLs}
      [] T = "SUBSCRIBE" ->
            {Vx(MkSubscribe(1, ps, <<MkFilter(S(102, n), 2, 0, 1, 1)>>)) : n \in SL \ {0}, ps \in {<< >>, <<P(11)>>}}
      [] T = "UNSUBSCRIBE" ->
            {Vx(MkUnsubscribe(1, ps, <<S(102, n)>>)) : n \in SL \ {0}, ps \in {<< >>, <<UP(1)>>}}
      [] OTHER -> {}

(* Remaining Length / Property Length on the Variable Byte Integer edges    *)
Fit(measure(_), target) ==                             \* filler property sequences with measure = target
    {PropsOfLen(L) : L \in {x \in ((IF target > 20 THEN target - 20 ELSE 0)..target) :
                              PLOK(x) /\ measure(Adm(PropsOfLen(x), T)) = target}}
RLOf(ps) == RemainingLength(WithProps(ps), "full")
WillPL(ps) == PropertyLength(ps)
FLengths ==
    (IF HasP
     THEN UnionAll({{Vx(WithProps(Adm(ps, T))) : ps \in Fit(PropertyLength, target)} : target \in RLE ++ {5}})     \* Property Length
          ++ UnionAll({{Vx(WithProps(Adm(ps, T))) : ps \in Fit(RLOf, target)} : target \in RLE})                  \* Remaining Length
          ++ (IF IsConnect
                THEN {Vx(WithWillProps(PropsOfLen(L))) : L \in {x \in RLE ++ {0, 5} : PLOK(x)}} ELSE {})
     ELSE {})
    ++
    (IF T = "PUBLISH"
     THEN LET ovh(q, ps) == RemainingLength(MkPublish(0, q, 0, Topic1, q, ps, << >>), "full")
          IN  {Vx(MkPublish(0, q, 0, Topic1, q, ps, S(112, target - ovh(q, ps)))) :
                  q \in 0..1, ps \in {<< >>, <<P(1), UP(1)>>},
                  target \in RLE ++ {268435455} ++ (IF Thorough THEN {268435454} ELSE {})}
     ELSE {})

(* contents other than runs of one ASCII letter: Binary Data may hold any   *)
(* byte; UTF-8 strings with 2-, 3- and 4-byte sequences ("e-acute", euro    *)
(* sign, U+1F600)                                                            *)
Bin1 == Canon(Bytes(<<0, 255, 128, 127, 0, 0, 255, 1>>))
Utf1 == Canon(Bytes(<<195, 169, 226, 130, 172, 240, 159, 152, 128, 47, 97>>))
ContentVals(id) ==
    LET ty == PropType(id)
    IN  CASE ty = "bin"  -> {Bin1, Run(0, 1), Run(0, 3), Run(255, 2), Run(255, 65535), Run(128, 128), Run(0, 65535)}
          [] ty = "utf8" -> {Utf1}
          [] ty = "pair" -> {<<Utf1, Utf1>>, <<Utf1, << >>>>, <<K(1), Utf1>>}
          [] OTHER -> {}
PsContent(A, ctx) == UnionAll({{Adm(<<Pv(id, v)>>, ctx) : v \in ContentVals(id)} : id \in A})
                     ++ UnionAll({{Tup(Replace(PropSeq(A), id, v)) : v \in ContentVals(id)} : id \in A})
FContent ==
    (IF HasP
     THEN {Vx(WithProps(ps)) : ps \in PsContent(Allowed, T)}
          ++ (IF IsConnect THEN {Vx(WithWillProps(ps)) : ps \in PsContent(WillA, "WILL")} ELSE {})
     ELSE {})
    ++
    CASE T = "CONNECT" ->
            {Vx(MkConnect(1, 60, << >>, Utf1, <<MkWill(1, 1, << >>, Utf1, pl)>>, <<Utf1>>, <<pw>>)) :
                pl \in {Bin1, Run(0, 2), Run(255, 65535)}, pw \in {Bin1, Run(0, 1), Run(255, 65535), Run(128, 3)}}
      [] T = "PUBLISH" ->
            {Vx(MkPublish(0, q, 0, Utf1, q, ps, pl)) : q \in 0..1, ps \in {<< >>, <<Pv(9, Bin1)>>},
                pl \in {Bin1, Run(0, 1), Run(0, 65535), Run(255, 1), Run(255, 65535), Run(128, 16384), Utf1}}
      [] T = "SUBSCRIBE"   -> {Vx(MkSubscribe(1, << >>, <<MkFilter(Utf1, 1, 0, 0, 0), MkFilter(S(35, 1), 0, 0, 0, 0)>>))}
      [] T = "UNSUBSCRIBE" -> {Vx(MkUnsubscribe(1, << >>, <<Utf1, S(35, 1)>>))}
      [] OTHER -> {}

Families == << <<"fields", FFields>>, <<"presence", FPresence>>, <<"values", FValues>>, <<"pairs", FPairs>>,
               <<"lists", FLists>>, <<"strings", FStrings>>, <<"lengths", FLengths>>, <<"content", FContent>> >>

-----------------------------------------------------------------------------
(* A vector belongs to the first family that produces it.                   *)
RECURSIVE Distinct(_, _, _)
Distinct(i, seen, acc) ==                                \* acc[i] = Families[i][2] minus all earlier families
    IF i > Len(Families) THEN acc
    ELSE LET mine == LET d == Families[i][2] \ seen IN Nz(d)
             all  == LET u == seen ++ mine IN Nz(u)
         IN  Distinct(i + 1, all, Append(acc, mine))
Parts == Distinct(1, {}, << >>)

RECURSIVE Labelled(_)
Labelled(i) == IF i > Len(Families) THEN << >>
               ELSE LET s == SetToSeq(Parts[i])
                    IN  [k \in 1..Len(s) |-> [fam |-> Families[i][1], pkt |-> s[k].pkt, form |-> s[k].form]] \o Labelled(i + 1)
Vecs == Labelled(1)

PartK == atoi(IOEnv.PARTK)
PartN == atoi(IOEnv.PARTN)
Mine  == SelectSeq([i \in 1..Len(Vecs) |-> i], LAMBDA i : i % PartN = PartK)

IdBase == 1000000 * TypeNo(T) + (IF Dir = "s2c" THEN 500000 ELSE 0)

Out == [k \in 1..Len(Mine) |->
          LET v == Vecs[Mine[k]]
          IN  [id |-> IdBase + Mine[k], type |-> T, dir |-> Dir, fam |-> v.fam, form |-> v.form,
               pkt |-> v.pkt, rl |-> RemainingLength(v.pkt, v.form), bytes |-> Encode(v.pkt, v.form)]]

SelfCheck(o) ==
    LET d == Decode(o.bytes)
    IN  /\ PacketOK(o.pkt) /\ FormOK(o.pkt, o.form)
        /\ IsCanon(o.bytes)
        /\ d.ok /\ d.pkt = o.pkt /\ d.form = o.form

ASSUME /\ \A k \in 1..Len(Out) : SelfCheck(Out[k]) \/ (PrintT(<<"SELFCHECK-FAILED", Out[k], Decode(Out[k].bytes)>>) /\ FALSE)
       /\ ndJsonSerialize(IOEnv.OUT, Tup(Out))
       /\ PrintT(<<"WIREVEC", T, Dir, Len(Vecs), Len(Out)>>)

VARIABLE done
Init == done = FALSE
Next == done' = TRUE
=============================================================================
