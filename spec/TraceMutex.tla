----------------------------- MODULE TraceMutex -----------------------------
(* C11: the calls and completions recorded from the REAL async_mutex (env     *)
(* TRACE, written by harness/drv_mutex.cpp) must be a behaviour of            *)
(* AsyncMutex: completions in the order the specification posts them, at most *)
(* one holder, every waiter completed exactly once, never inside lock().      *)
EXTENDS Integers, Sequences, FiniteSets, TLC, Json, IOUtils

MaxW == 16
VARIABLES locked, waiting, posted, st, grants
M == INSTANCE AsyncMutex

Ev == ndJsonDeserialize(IOEnv.TRACE)
VARIABLES i, inl      \* position; waiters cancelled individually whose completion may come at once or later

vars == <<locked, waiting, posted, st, grants, i, inl>>

Init == /\ i = 1 /\ inl = {}
        /\ locked = FALSE /\ waiting = << >> /\ posted = << >> /\ st = [w \in 1..MaxW |-> "new"] /\ grants = << >>

Held == {w \in 1..MaxW : st[w] = "held"}
RemovePosted(ps, w) == SelectSeq(ps, LAMBDA p : p.w # w)

\* next state and violated clauses for one recorded event
Step(e) ==
    CASE e.op = "reset" ->
            [locked |-> FALSE, waiting |-> << >>, posted |-> << >>, st |-> [w \in 1..MaxW |-> "new"], grants |-> << >>, inl |-> {}, v |-> {}]
      [] e.op = "lock" ->
            IF ~locked
              THEN [locked |-> TRUE, waiting |-> waiting, posted |-> Append(posted, [w |-> e.w, ec |-> "ok"]),
                    st |-> [st EXCEPT ![e.w] = "posted_ok"], grants |-> grants, inl |-> inl,
                    v |-> IF e.w # M!NextNew THEN {"C11_x_DriverIds"} ELSE {}]
              ELSE [locked |-> locked, waiting |-> Append(waiting, e.w), posted |-> posted,
                    st |-> [st EXCEPT ![e.w] = "waiting"], grants |-> grants, inl |-> inl,
                    v |-> IF e.w # M!NextNew THEN {"C11_x_DriverIds"} ELSE {}]
      [] e.op = "unlock" ->
            LET u == M!UnlockOf(locked, waiting, posted) IN
            [locked |-> u.locked, waiting |-> u.waiting, posted |-> u.posted,
             st |-> [st EXCEPT ![e.w] = "released", ![u.next] = IF u.next = 0 THEN @ ELSE "posted_ok"],
             grants |-> grants, inl |-> inl, v |-> IF st[e.w] # "held" THEN {"C11_x_DriverUnlock"} ELSE {}]
      [] e.op = "cancel_all" ->
            [locked |-> locked, waiting |-> << >>, posted |-> M!CancelAllOf(waiting, posted),
             st |-> [w \in 1..MaxW |-> IF st[w] = "waiting" THEN "posted_ab" ELSE st[w]], grants |-> grants, inl |-> inl, v |-> {}]
      [] e.op = "cancel" ->
            IF st[e.w] = "waiting"
              THEN [locked |-> locked, waiting |-> [k \in DOMAIN waiting |-> IF waiting[k] = e.w THEN 0 ELSE waiting[k]],
                    posted |-> posted, st |-> [st EXCEPT ![e.w] = "cancelled"], grants |-> grants, inl |-> inl \cup {e.w}, v |-> {}]
              ELSE [locked |-> locked, waiting |-> waiting, posted |-> posted, st |-> st, grants |-> grants, inl |-> inl, v |-> {}]
      [] e.op = "done" ->
            LET inside == IF e.inl # 0 THEN {"C11_c_CompletedInsideLock"} ELSE {}
                two == IF e.ec = "ok" /\ Held # {} THEN {"C11_a_TwoHolders"} ELSE {}
                twice == IF st[e.w] \in {"held", "released", "aborted"} THEN {"C11_b_CompletedTwice"} ELSE {}
            IN IF e.w \in inl /\ e.ec = "aborted"
                 THEN [locked |-> locked, waiting |-> waiting, posted |-> posted, st |-> [st EXCEPT ![e.w] = "aborted"],
                       grants |-> grants, inl |-> inl \ {e.w}, v |-> inside \cup twice]
               ELSE IF posted # << >> /\ Head(posted).w = e.w /\ Head(posted).ec = e.ec
                 THEN [locked |-> locked, waiting |-> waiting, posted |-> Tail(posted),
                       st |-> [st EXCEPT ![e.w] = IF e.ec = "ok" THEN "held" ELSE "aborted"],
                       grants |-> IF e.ec = "ok" THEN Append(grants, e.w) ELSE grants, inl |-> inl,
                       v |-> inside \cup two \cup twice]
               ELSE \* not what the specification expects next: report, then follow the implementation
                    [locked |-> locked, waiting |-> SelectSeq(waiting, LAMBDA x : x # e.w), posted |-> RemovePosted(posted, e.w),
                     st |-> [st EXCEPT ![e.w] = IF e.ec = "ok" THEN "held" ELSE "aborted"],
                     grants |-> IF e.ec = "ok" THEN Append(grants, e.w) ELSE grants, inl |-> inl \ {e.w},
                     v |-> inside \cup two \cup twice \cup
                           {IF e.ec = "ok" /\ st[e.w] \in {"cancelled", "posted_ab"} THEN "C11_e_CancelledWaiterGotLock"
                            ELSE "C11_b_CompletionOutOfOrder"}]
      [] e.op = "end" ->
            [locked |-> locked, waiting |-> waiting, posted |-> posted, st |-> st, grants |-> grants, inl |-> inl,
             v |-> (IF \E w \in 1..MaxW : st[w] \in {"waiting", "posted_ok", "posted_ab", "cancelled", "held"} THEN {"C11_b_WaiterNeverCompleted"} ELSE {})
                   \cup (IF e.locked # 0 THEN {"C11_a_LockLeaked"} ELSE {})]
      [] OTHER ->
            [locked |-> locked, waiting |-> waiting, posted |-> posted, st |-> st, grants |-> grants, inl |-> inl, v |-> {}]

Next == /\ i <= Len(Ev)
        /\ LET s == Step(Ev[i])
               lk == IF Ev[i].op \in {"lock_ret", "unlock_ret", "cancel_all_ret", "cancel_ret", "done"} /\ (Ev[i].locked = 1) # s.locked
                       THEN {"C11_s_LockedFlagDiffers"} ELSE {}
           IN /\ \A cl \in s.v \cup lk : PrintT("VIOL " \o ToString(i) \o " " \o cl)
              /\ locked' = s.locked /\ waiting' = s.waiting /\ posted' = s.posted /\ st' = s.st /\ grants' = s.grants /\ inl' = s.inl
        /\ i' = i + 1
Spec == Init /\ [][Next]_vars

\* the specification's own invariants, evaluated on the states the implementation drove it through
AtMostOneHolder == M!AtMostOneHolder
GrantsInArrivalOrder == M!GrantsInArrivalOrder
Accepted == \/ TLCGet("stats").diameter - 1 = Len(Ev)
            \/ PrintT("REJECTED") /\ FALSE
=============================================================================
