--------------------------- MODULE TraceKeepAlive ---------------------------
(* Conformance of the REAL client's keep-alive timing with KeepAlive.tla (env    *)
(* TRACE: the recorded events reduced to the kinds used here, virtual time in    *)
(* ms).  The fold follows the model deterministically:                           *)
(*   update_session_state() at t  -> the ping deadline becomes PingDeadline(t,K) *)
(*        with K = Negotiated(Server Keep Alive of the accepted CONNACK, config) *)
(*   time reaches the deadline    -> a PINGREQ is owed (it may wait for a write  *)
(*        in progress or for the next connection)                                *)
(*   PINGREQ on the wire          -> must be owed (never EARLIER than the model  *)
(*        schedules it, never with keep-alive 0); when its write has completed   *)
(*        the next deadline is PingDeadline(t, K)                                *)
(* (a read abandoned by the client's own timer is recorded like any cancelled   *)
(* read, so the 1.5 x K bound is judged by the Observer clauses C12_b alone.)    *)
(* Lateness is a property clause (Observer C12_a/b); here only agreement with    *)
(* the design is checked.  Output: "DEV <scenario> <event> ka:<what>" for the    *)
(* first deviation of a scenario (tools/vlib.py prints CONFORMANCE-DEVIATION).   *)
EXTENDS Integers, Sequences, TLC, Json, IOUtils

KA == INSTANCE KeepAlive WITH Ks <- {0}, Latency <- 0, MaxTime <- 0, Rearm <- TRUE,
                              now <- 0, up <- FALSE, K <- 0, tconn <- 0, pingDue <- 0, wr <- 0, lastPing <- 0,
                              readDue <- 0, lastRx <- 0, early <- FALSE
U == 500
Ev == ndJsonDeserialize(IOEnv.TRACE)

VARIABLES i, s, sc, on
vars == <<i, s, sc, on>>

S0 == [ka |-> 0, ska |-> -1, K |-> 0, due |-> KA!Inf, owed |-> FALSE, pw |-> -1]

\* time has reached the deadline: the PINGREQ is owed from now on
Due(x, t) == IF x.due # KA!Inf /\ t >= x.due THEN [x EXCEPT !.due = KA!Inf, !.owed = TRUE] ELSE x

\* result: [s |-> next state, d |-> deviations]
Step(x0, e) ==
    LET x == Due(x0, e.t) IN
    CASE e.e = "cfg" -> [s |-> [S0 EXCEPT !.ka = e.ka], d |-> {}]
      [] e.e = "b_send" -> [s |-> IF e.type = "CONNACK" /\ e.rc < 128 THEN [x EXCEPT !.ska = e.ska] ELSE x, d |-> {}]
      [] e.e = "h" -> IF e.k = "update_session"
                        THEN LET k == KA!Negotiated(x.ska, x.ka) IN
                             [s |-> [x EXCEPT !.K = k, !.due = KA!PingDeadline(e.t, k, U), !.owed = IF k = 0 THEN FALSE ELSE @], d |-> {}]
                        ELSE [s |-> x, d |-> {}]
      [] e.e = "c_pkt" -> IF e.type = "PINGREQ"
                            THEN [s |-> [x EXCEPT !.owed = FALSE, !.pw = e.w],
                                  d |-> (IF x.K = 0 THEN {"ping-with-keep-alive-0"} ELSE {})
                                        \cup (IF x.K > 0 /\ ~x.owed THEN {"ping-earlier-than-scheduled"} ELSE {})]
                            ELSE [s |-> x, d |-> {}]
      [] e.e = "c_write_end" -> IF e.w = x.pw
                                  THEN [s |-> [x EXCEPT !.pw = -1, !.due = IF e.ec = "ok" THEN KA!PingDeadline(e.t, x.K, U) ELSE @], d |-> {}]
                                  ELSE [s |-> x, d |-> {}]
      [] OTHER -> [s |-> x, d |-> {}]

Init == i = 1 /\ s = S0 /\ sc = -1 /\ on = TRUE

Next ==
    /\ i <= Len(Ev)
    /\ LET e == Ev[i] IN
       IF e.e = "reset" THEN sc' = e.sc /\ on' = TRUE /\ s' = S0
       ELSE IF ~on THEN UNCHANGED <<s, sc, on>>
       ELSE LET r == Step(s, e) IN
            /\ (\A w \in r.d : PrintT("DEV " \o ToString(sc) \o " " \o ToString(e.n) \o " ka:" \o w))
            /\ s' = r.s /\ on' = (r.d = {}) /\ UNCHANGED sc
    /\ i' = i + 1

Spec == Init /\ [][Next]_vars
Accepted ==
    \/ TLCGet("stats").diameter - 1 = Len(Ev)
    \/ PrintT(<<"REJECTED", TLCGet("stats").diameter - 1, Len(Ev)>>) /\ FALSE
=============================================================================
