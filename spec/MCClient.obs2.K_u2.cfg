SPECIFICATION Spec
CONSTANTS
  NOps = 2
  KindOf <- K_u2
  RMs = {1, 65535}
  MaxFaults = 1
  MaxCancels = 1
  RecRcs = {0}
  QuotaResetFirst = FALSE
  ResendGuard = TRUE
  Observe = TRUE
INVARIANT NoViolation
INVARIANT TypeOK
INVARIANT DoneWhenQuiet
VIEW View
CHECK_DEADLOCK FALSE
