SPECIFICATION Spec
CONSTANTS
  NOps = 3
  AbortClearsQueue = FALSE
INVARIANT CompletedOnce
INVARIANT Drained
INVARIANT AbortedAfterCancel
INVARIANT SilenceAfterDisconnect
CHECK_DEADLOCK FALSE
