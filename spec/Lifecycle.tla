------------------------------ MODULE Lifecycle ------------------------------
(***************************************************************************)
(* Implementation-shaped specification of starting, cancelling and         *)
(* disconnecting the client (C05, C09):                                     *)
(*   mqtt_client::cancel / async_disconnect  swap in a fresh, closed       *)
(*        service and act on the old one                                    *)
(*   client_service::cancel()   returns at once when the stream is not     *)
(*        open; otherwise aborts reply waiters and queued requests (posted) *)
(*        and closes the stream (a write in flight then ends aborted)       *)
(*   async_sender   one write at a time; a terminal request (DISCONNECT)   *)
(*        is written alone and first; a write that ends operation_aborted   *)
(*        completes its requests and (since fix F13) aborts what was        *)
(*        queued behind it                                                  *)
(*   terminal_disconnect_op   disconnect_op raced against a 5 s timer;      *)
(*        the race is over only when BOTH have finished, the timer only     *)
(*        cancels the disconnect_op (which calls client_service::cancel())  *)
(* Requests are QoS 1 publishes (queued -> written -> waiting for PUBACK). *)
(*                                                                         *)
(* AbortClearsQueue = FALSE is the code before the fix of finding F13:     *)
(* TLC then shows async_disconnect never completing on a client that is    *)
(* not running when it is called right after an async_publish.             *)
(***************************************************************************)
EXTENDS Integers, Sequences, FiniteSets, TLC

CONSTANTS NOps, AbortClearsQueue

Ops == 1..NOps
D == 0                     \* the DISCONNECT request of async_disconnect

VARIABLES
    open,       \* old service: stream open (async_run called, not cancelled)
    swapped,    \* cancel() / async_disconnect was called: the client now holds a fresh closed service
    st,         \* per request (Ops and D): "new" | "queued" | "inflight" | "waiting" | "posted" | "done"
    res,        \* per request: "" | "ok" | "aborted"
    wq,         \* _write_queue (request ids)
    wip,        \* requests of the write in flight
    posted,     \* posted completions, FIFO: [r, ec]
    timer,      \* 5 s timer of terminal_disconnect_op: "off" | "armed" | "fired"
    twice       \* ghost: some request was completed twice

vars == <<open, swapped, st, res, wq, wip, posted, timer, twice>>
Reqs == Ops \cup {D}

Init == /\ open = FALSE /\ swapped = FALSE
        /\ st = [r \in Reqs |-> "new"] /\ res = [r \in Reqs |-> ""]
        /\ wq = << >> /\ wip = << >> /\ posted = << >> /\ timer = "off" /\ twice = FALSE

\* do_write(): nothing while a write is in flight; the terminal request alone, else everything
Batch(q) == IF \E i \in DOMAIN q : q[i] = D THEN <<D>> ELSE q
Rest(q) == IF \E i \in DOMAIN q : q[i] = D THEN SelectSeq(q, LAMBDA x : x # D) ELSE << >>
DoWrite(q, w, s) ==
    IF w # << >> \/ q = << >> THEN [wq |-> q, wip |-> w, st |-> s]
    ELSE [wq |-> Rest(q), wip |-> Batch(q), st |-> [r \in Reqs |-> IF \E i \in DOMAIN Batch(q) : Batch(q)[i] = r THEN "inflight" ELSE s[r]]]

\* client_service::cancel() of the old service
SvcCancel(o, s, q, p) ==
    IF ~o THEN [open |-> o, st |-> s, wq |-> q, posted |-> p]               \* "if (!_stream.is_open()) return;"
    ELSE LET ws == {r \in Reqs : s[r] = "waiting"}
             wseq == [i \in 1..Cardinality(ws) |-> [r |-> CHOOSE x \in ws : Cardinality({y \in ws : y < x}) = i - 1, ec |-> "aborted"]]
             qseq == [i \in 1..Len(q) |-> [r |-> q[i], ec |-> "aborted"]]
         IN [open |-> FALSE,
             st |-> [r \in Reqs |-> IF s[r] = "waiting" \/ (\E i \in DOMAIN q : q[i] = r) THEN "posted" ELSE s[r]],
             wq |-> << >>, posted |-> p \o wseq \o qseq]

\* async_run
Start == /\ ~open /\ ~swapped /\ open' = TRUE
         /\ UNCHANGED <<swapped, st, res, wq, wip, posted, timer, twice>>

\* async_publish
Call(r) ==
    /\ r \in Ops /\ st[r] = "new"
    /\ IF swapped
         THEN \* the fresh service was never opened: its write ends operation_aborted
              /\ posted' = Append(posted, [r |-> r, ec |-> "aborted"]) /\ st' = [st EXCEPT ![r] = "posted"]
              /\ UNCHANGED <<wq, wip>>
         ELSE LET w == DoWrite(Append(wq, r), wip, [st EXCEPT ![r] = "queued"])
              IN wq' = w.wq /\ wip' = w.wip /\ st' = w.st /\ UNCHANGED posted
    /\ UNCHANGED <<open, swapped, res, timer, twice>>

\* the write in flight completes: async_sender::operator()
WriteCompletes ==
    /\ wip # << >>
    /\ IF open
         THEN \* success: publishes wait for their PUBACK; the DISCONNECT is followed by shutdown and cancel()
              IF wip = <<D>>
                THEN LET c == SvcCancel(open, [st EXCEPT ![D] = "done"], wq, posted) IN
                     /\ open' = c.open /\ st' = c.st /\ wq' = c.wq /\ posted' = c.posted
                     /\ res' = [res EXCEPT ![D] = "ok"] /\ wip' = << >>
                     /\ twice' = (twice \/ st[D] = "done")
                ELSE LET s1 == [r \in Reqs |-> IF \E i \in DOMAIN wip : wip[i] = r THEN "waiting" ELSE st[r]]
                         w == DoWrite(wq, << >>, s1)
                     IN /\ wq' = w.wq /\ wip' = w.wip /\ st' = w.st
                        /\ UNCHANGED <<open, res, posted, twice>>
         ELSE \* operation_aborted: the requests of the batch complete; what was queued meanwhile is aborted too (F13 fix)
              /\ st' = [r \in Reqs |-> IF \E i \in DOMAIN wip : wip[i] = r THEN "done"
                                       ELSE IF AbortClearsQueue /\ \E i \in DOMAIN wq : wq[i] = r THEN "posted" ELSE st[r]]
              /\ res' = [r \in Reqs |-> IF \E i \in DOMAIN wip : wip[i] = r THEN "aborted" ELSE res[r]]
              /\ twice' = (twice \/ \E i \in DOMAIN wip : st[wip[i]] = "done")
              /\ wip' = << >>
              /\ IF AbortClearsQueue
                   THEN wq' = << >> /\ posted' = posted \o [i \in 1..Len(wq) |-> [r |-> wq[i], ec |-> "aborted"]]
                   ELSE UNCHANGED <<wq, posted>>
              /\ UNCHANGED open
    /\ UNCHANGED <<swapped, timer>>

\* the broker acknowledges a publish
Ack(r) ==
    /\ r \in Ops /\ st[r] = "waiting" /\ open
    /\ st' = [st EXCEPT ![r] = "done"] /\ res' = [res EXCEPT ![r] = "ok"]
    /\ UNCHANGED <<open, swapped, wq, wip, posted, timer, twice>>

\* mqtt_client::cancel()
Cancel ==
    /\ ~swapped
    /\ LET c == SvcCancel(open, st, wq, posted) IN open' = c.open /\ st' = c.st /\ wq' = c.wq /\ posted' = c.posted
    /\ swapped' = TRUE
    /\ UNCHANGED <<res, wip, timer, twice>>

\* mqtt_client::async_disconnect(): the DISCONNECT request goes to the OLD service, the 5 s timer starts
Disconnect ==
    /\ ~swapped /\ st[D] = "new"
    /\ swapped' = TRUE /\ timer' = "armed"
    /\ LET w == DoWrite(Append(wq, D), wip, [st EXCEPT ![D] = "queued"]) IN wq' = w.wq /\ wip' = w.wip /\ st' = w.st
    /\ UNCHANGED <<open, res, posted, twice>>

\* the 5 s timer wins: the disconnect_op is cancelled, i.e. client_service::cancel() runs
TimerFires ==
    /\ timer = "armed" /\ st[D] # "done"
    /\ timer' = "fired"
    /\ LET c == SvcCancel(open, st, wq, posted) IN open' = c.open /\ st' = c.st /\ wq' = c.wq /\ posted' = c.posted
    /\ UNCHANGED <<swapped, res, wip, twice>>

\* a posted completion runs
RunPosted ==
    /\ posted # << >>
    /\ LET p == Head(posted) IN
       /\ st' = [st EXCEPT ![p.r] = "done"] /\ res' = [res EXCEPT ![p.r] = p.ec]
       /\ twice' = (twice \/ st[p.r] = "done")
    /\ posted' = Tail(posted)
    /\ UNCHANGED <<open, swapped, wq, wip, timer>>

Next == Start \/ (\E r \in Ops : Call(r) \/ Ack(r)) \/ WriteCompletes \/ Cancel \/ Disconnect \/ TimerFires \/ RunPosted
Spec == Init /\ [][Next]_vars

---------------------------------------------------------------------------
CompletedOnce == ~twice                                                           \* C05_a
\* once cancel() / async_disconnect was called and nothing more can happen, every request that was initiated is
\* done, async_disconnect included (its 5 s timer has fired by then if the DISCONNECT could not be written)
Quiet == swapped /\ ~ENABLED (WriteCompletes \/ TimerFires \/ RunPosted)
Drained == Quiet => \A r \in Reqs : st[r] \in {"new", "done"}                        \* C05_c, C09_c
AbortedAfterCancel == Quiet => \A r \in Ops : st[r] = "done" => res[r] \in {"ok", "aborted"}
\* nothing is written after the DISCONNECT of async_disconnect (C09_b): once D was written the service is closed
SilenceAfterDisconnect == (st[D] = "done" /\ res[D] = "ok") => ~open
=============================================================================
