SPECIFICATION Spec
CONSTANT MaxW = 5
INVARIANT AtMostOneHolder
INVARIANT LockedIffHeld
INVARIANT GrantsInArrivalOrder
INVARIANT CancelledNeverHolds
INVARIANT QueueConsistent
CHECK_DEADLOCK FALSE
