----------------------------- MODULE TraceUtf8 -----------------------------
(***************************************************************************)
(* Property C16, result validation.  harness/vec_utf8.cpp calls the REAL   *)
(* validators of the library on every enumerated input and records one     *)
(* ndjson line per input in the file named by the environment variable     *)
(* TRACE:                                                                  *)
(*                                                                         *)
(*   {"id":7,"g":"alpha","b":[195,190],"utf8":0,"name":"invalid",          *)
(*    "alias_name":"invalid","filter":"invalid","shared":"invalid",        *)
(*    "shared_nowild":"invalid"}                                           *)
(*   {"id":8,"g":"len","pre":[43,47],"rep":120,"n":65533,"post":[],...}    *)
(*        the string  pre . rep^n . post  (run-length form, long strings)  *)
(*   {"id":0,"g":"const","sub_id_min":1,"sub_id_max":268435455,            *)
(*    "size_ok_65535":1,"size_ok_65536":0}    the library's constants      *)
(*                                                                         *)
(* This module evaluates the reference Utf8Topic on each line and prints   *)
(* one line  VIOL <id> <clause>  per disagreement.  Lines are consumed in  *)
(* batches of Batch per TLC state; the post-condition demands that every   *)
(* line was consumed.  Run with -workers 1.                                *)
(***************************************************************************)
EXTENDS Utf8Topic, TLC, Json, IOUtils

Vectors == ndJsonDeserialize(IOEnv.TRACE)
NVec    == Len(Vectors)
Batch   == 500

(***************************************************************************)
(* Run-length vectors.  RunLemma: let r be an ASCII letter/digit that is   *)
(* none of '#' '+' '/' '$' and no letter of "share".  Then for n >= 1 all  *)
(* verdicts of  pre . r^n . post  equal those of  pre . r . post  except   *)
(* for the length bound, because (i) r is a complete one-byte character,   *)
(* so the decoding of pre and post and the allowedness of their characters *)
(* do not depend on n; (ii) every clause of WildcardPlacementOK,           *)
(* HasSharePrefix and ShareNameEnds looks at a character and its immediate *)
(* neighbours or at the position of '/', and r^n, n >= 1, presents the     *)
(* same neighbour (r) on both sides and contains no '/', '#', '+', and     *)
(* (iii) r^n cannot complete "$share/" since r is none of its letters.     *)
(* The verdicts are therefore computed on the code points of the collapsed *)
(* string together with the TRUE byte length.  The lemma is not only       *)
(* argued: for every run vector with n <= 6 the expanded string is judged  *)
(* as well and a difference is reported as SELFTEST_RunLemma.              *)
(***************************************************************************)
IsRun(e) == "rep" \in DOMAIN e

RunRepOK(r) == /\ (r >= 48 /\ r <= 57) \/ (r >= 65 /\ r <= 90) \/ (r >= 97 /\ r <= 122)
               /\ r \notin {115, 104, 97, 114, 101}            \* s h a r e

Collapsed(e) == e.pre \o (IF e.n >= 1 THEN <<e.rep>> ELSE <<>>) \o e.post
Expanded(e)  == e.pre \o [i \in 1..e.n |-> e.rep] \o e.post

Verdicts(b, cps, n) ==
    [utf8   |-> Utf8VerdictC(cps, n),
     name   |-> TopicNameAllowedC(b, cps, n),
     alias  |-> TopicAliasNameAllowedC(b, cps, n),
     filter |-> TopicFilterAllowedC(b, cps, n),
     shared |-> SharedFilterAllowedC(b, cps, n),
     nowild |-> SharedFilterNoWildcardAllowedC(b, cps, n)]

(***************************************************************************)
(* Clause names.  lib: what the library returned; allowed: what the        *)
(* contract tolerates (Utf8Topic section 6).                               *)
(*   ...AcceptedButInvalid  the library accepts an input MQTT forbids      *)
(*   ...RejectedButValid    the library rejects a well-formed input        *)
(*   ...WrongRejection      rejected as it must be, with the wrong one of  *)
(*                          "wildcard"/"invalid" (-> wrong error code)     *)
(***************************************************************************)
Judge(prefix, lib, allowed) ==
    IF lib \in allowed THEN {}
    ELSE IF lib = "valid" THEN {prefix \o "AcceptedButInvalid"}
    ELSE IF "valid" \in allowed THEN {prefix \o "RejectedButValid"}
    ELSE {prefix \o "WrongRejection"}

StringViol(e) ==
    LET run == IsRun(e)
        b   == IF run THEN Collapsed(e) ELSE e.b
        n   == IF run THEN Len(e.pre) + e.n + Len(e.post) ELSE Len(e.b)
        cps == CodePoints(b)
        v   == Verdicts(b, cps, n)
        wf  == WellFormedCps(cps)
    IN  \* C16_a: UTF-8 Encoded String
        (IF (e.utf8 = 1) = v.utf8 THEN {}
         ELSE IF e.utf8 = 0 THEN {"C16_a_Utf8RejectedButValid"}
         ELSE IF ~wf THEN {"C16_a_Utf8AcceptedButIllFormed"}
         ELSE IF n > MaxStringBytes THEN {"C16_a_Utf8AcceptedButTooLong"}
         ELSE {"C16_a_Utf8AcceptedButDisallowedChar"})
        \* C16_b: topic names and filters
        \cup Judge("C16_b_TopicName", e.name, v.name)
        \cup Judge("C16_b_TopicAliasName", e.alias_name, v.alias)
        \cup Judge("C16_b_TopicFilter", e.filter, v.filter)
        \cup Judge("C16_b_SharedFilter", e.shared, v.shared)
        \cup Judge("C16_b_SharedFilterNoWildcard", e.shared_nowild, v.nowild)
        \* self tests of the reference (reported by the stage as infrastructure errors)
        \cup (IF wf = WellFormedTable37(b) THEN {} ELSE {"SELFTEST_Table37"})
        \cup (IF ~run THEN {}
              ELSE IF ~RunRepOK(e.rep) THEN {"SELFTEST_RunRep"}
              ELSE IF e.n > 6 THEN {}
              ELSE LET x == Expanded(e)
                   IN  IF Verdicts(x, CodePoints(x), Len(x)) = v THEN {} ELSE {"SELFTEST_RunLemma"})

\* C16_c: value ranges.  The library keeps the Subscription Identifier bounds and the
\* string size bound as constants/one-line predicates; they must be the MQTT ones.
ConstViol(e) ==
    (IF e.sub_id_min = MinSubscriptionId /\ e.sub_id_max = MaxSubscriptionId
     THEN {} ELSE {"C16_c_SubscriptionIdRange"})
    \cup (IF e.size_ok_65535 = 1 /\ e.size_ok_65536 = 0 THEN {} ELSE {"C16_c_StringSizeBound"})

Viol(e) == IF e.g = "const" THEN ConstViol(e) ELSE StringViol(e)

VARIABLE l

Init == l = 1

\* "= TRUE" makes TLC evaluate the quantifier as an expression (a loop) instead of unfolding it
\* as an action, which would cost one Java stack frame group per line of the batch.
ReportBatch(lo, hi) ==
    \A k \in lo..hi :
        \A cl \in Viol(Vectors[k]) : PrintT("VIOL " \o ToString(Vectors[k].id) \o " " \o cl)

Next ==
    /\ l <= NVec
    /\ ReportBatch(l, IF l + Batch - 1 < NVec THEN l + Batch - 1 ELSE NVec) = TRUE
    /\ l' = l + Batch

Spec == Init /\ [][Next]_l

\* every line consumed: the behaviour has one state per batch plus the initial one
AllConsumed ==
    \/ TLCGet("stats").diameter - 1 = (NVec + Batch - 1) \div Batch
    \/ PrintT(<<"REJECTED", TLCGet("stats").diameter - 1, NVec>>) /\ FALSE
=============================================================================
