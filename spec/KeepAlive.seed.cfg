SPECIFICATION Spec
CONSTANTS Ks = {0, 1, 2} Latency = 1 MaxTime = 16 Rearm = FALSE
INVARIANTS PingOnTime
CHECK_DEADLOCK FALSE
