------------------------------- MODULE Session -------------------------------
(* session_state (detail/internal_types.hpp), connect_op::on_connack,          *)
(* client_service::update_session_state() - called once by the read path and   *)
(* once by the write path after every reconnect, in either order -, and        *)
(* subscribe_op::complete() setting subscriptions_present.                     *)
(* C13: a reconnect with Session Present = 0 after at least one successful     *)
(* subscription (since start / since the previous report) yields exactly one   *)
(* session_expired; otherwise none.                                            *)
EXTENDS Integers, Sequences, TLC

CONSTANTS MaxConn, MaxSubs,
          DecideAtStart,  \* FALSE: subscribe_op looks at subscriptions_present() when the SUBACK arrives (the code);
                          \* TRUE: it decides when the subscribe is initiated (a plausible refactoring; breaks C13)
          OnlyClear       \* FALSE: connect_op::on_connack stores the CONNACK's Session Present flag (the code);
                          \* TRUE: it only ever clears it (seeded change r2-c13): the 0 left behind by a REFUSED attempt
                          \* survives an accepted CONNACK with Session Present 1

VARIABLES
    sp,        \* session_state::session_present()
    subs,      \* session_state::subscriptions_present()
    up,        \* a connection is established
    pendR, pendW,   \* update_session_state() still to be called by the read / write path for this connection
    reported,  \* number of session_expired put into the receive channel
    owed,      \* ghost: number the property demands
    since,     \* ghost: a subscription succeeded since start / the last demand
    conns, nsubs,
    inflight   \* subscribes initiated and not yet acknowledged: sequence of the flag value they saw at initiation

vars == <<sp, subs, up, pendR, pendW, reported, owed, since, conns, nsubs, inflight>>

Init == sp = FALSE /\ subs = FALSE /\ up = FALSE /\ pendR = FALSE /\ pendW = FALSE
        /\ reported = 0 /\ owed = 0 /\ since = FALSE /\ conns = 0 /\ nsubs = 0 /\ inflight = << >>

\* CONNACK with Session Present = b; the path that reconnected calls update_session_state() in the same handler
Connack(b, who) ==
    /\ ~up /\ conns < MaxConn
    /\ up' = TRUE /\ conns' = conns + 1
    /\ owed' = IF ~b /\ since THEN owed + 1 ELSE owed
    /\ since' = IF ~b THEN FALSE ELSE since
    \* on_connack: session_present(b); then update_session_state() of the reconnecting path
    /\ LET stored == IF OnlyClear THEN (IF ~b THEN FALSE ELSE sp) ELSE b
           rep == ~stored /\ subs IN
       /\ reported' = IF rep THEN reported + 1 ELSE reported
       /\ subs' = IF ~stored THEN FALSE ELSE subs
       /\ sp' = TRUE
    /\ pendR' = (who = "write") /\ pendW' = (who = "read")
    /\ UNCHANGED <<nsubs, inflight>>

\* a connection attempt the broker refuses: its CONNACK carries Session Present 0, and on_connack stores the flag
\* before it looks at the Reason Code; the attempt does not become the connection
Refused ==
    /\ ~up /\ conns < MaxConn
    /\ sp' = FALSE /\ conns' = conns + 1
    /\ UNCHANGED <<subs, up, pendR, pendW, reported, owed, since, nsubs, inflight>>

\* the other path's (stale) try_again: update_session_state() again
Update(path) ==
    /\ up /\ (IF path = "read" THEN pendR ELSE pendW)
    /\ LET rep == ~sp /\ subs IN
       /\ reported' = IF rep THEN reported + 1 ELSE reported
       /\ subs' = IF ~sp THEN FALSE ELSE subs
       /\ sp' = TRUE
    /\ pendR' = (IF path = "read" THEN FALSE ELSE pendR) /\ pendW' = (IF path = "write" THEN FALSE ELSE pendW)
    /\ UNCHANGED <<up, owed, since, conns, nsubs, inflight>>

\* async_subscribe is initiated (it survives connection losses and is re-sent)
SubStart ==
    /\ nsubs + Len(inflight) < MaxSubs
    /\ inflight' = Append(inflight, ~subs)
    /\ UNCHANGED <<sp, subs, up, pendR, pendW, reported, owed, since, conns, nsubs>>

\* a SUBACK with a successful code is delivered to the oldest subscribe in flight
SubOk ==
    /\ up /\ inflight # << >>
    /\ LET first == IF DecideAtStart THEN Head(inflight) ELSE ~subs IN
       subs' = IF first THEN TRUE ELSE subs
    /\ since' = TRUE /\ nsubs' = nsubs + 1 /\ inflight' = Tail(inflight)
    /\ UNCHANGED <<sp, up, pendR, pendW, reported, owed, conns>>

Fault == /\ up /\ up' = FALSE /\ pendR' = FALSE /\ pendW' = FALSE
         /\ UNCHANGED <<sp, subs, reported, owed, since, conns, nsubs, inflight>>

Next == (\E b \in BOOLEAN, who \in {"read", "write"} : Connack(b, who)) \/ Refused \/ Update("read") \/ Update("write") \/ SubStart \/ SubOk \/ Fault
Spec == Init /\ [][Next]_vars

ExactlyTheOwedReports == reported = owed          \* C13_a / C13_b, at every instant
FlagFollowsGhost == subs = since
=============================================================================
