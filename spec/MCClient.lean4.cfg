SPECIFICATION Spec
CONSTANTS
  NOps = 4
  KindOf <- K_2210
  RMs = {1, 2, 65535}
  MaxFaults = 2
  MaxCancels = 2
  RecRcs = {0, 128}
  QuotaResetFirst = FALSE
  ResendGuard = TRUE
  Observe = FALSE
INVARIANT TypeOK
INVARIANT DoneWhenQuiet
INVARIANT InvReceiveMaximum
INVARIANT InvPublishOrder
INVARIANT InvTruthful
INVARIANT InvNoPublishAfterRelease
INVARIANT InvPidUnique
INVARIANT InvPidNonZero
INVARIANT InvAbortOnlyIfCancelled
VIEW ViewEngine
CHECK_DEADLOCK FALSE
