---------------------------- MODULE ReasonCodes ----------------------------
(* MQTT 5.0 reason codes per packet type, transcribed from the OASIS text    *)
(* (sections 3.2.2.2, 3.4.2.1, 3.5.2.1, 3.6.2.1, 3.7.2.1, 3.9.3, 3.11.3,     *)
(* 3.14.2.1, 3.15.2.1): Listed(cat) = codes the standard lists for the       *)
(* packet, ServerMay(cat) = those a Server may send.  C20: a received byte   *)
(* is accepted only if listed and always if a Server may send it; an         *)
(* accepted code is reported with exactly that value.                        *)
EXTENDS Integers

Cats == {"connack", "puback", "pubrec", "pubrel", "pubcomp", "suback", "unsuback", "auth", "disconnect"}

PubAck == {0, 16, 128, 131, 135, 144, 145, 151, 153}

Listed(cat) ==
    CASE cat = "connack"  -> {0, 128, 129, 130, 131, 132, 133, 134, 135, 136, 137, 138, 140, 144, 149, 151,
                              153, 154, 155, 156, 157, 159}
      [] cat = "puback"   -> PubAck
      [] cat = "pubrec"   -> PubAck
      [] cat = "pubrel"   -> {0, 146}
      [] cat = "pubcomp"  -> {0, 146}
      [] cat = "suback"   -> {0, 1, 2, 128, 131, 135, 143, 145, 151, 158, 161, 162}
      [] cat = "unsuback" -> {0, 17, 128, 131, 135, 143, 145}
      [] cat = "auth"     -> {0, 24, 25}
      [] cat = "disconnect" -> {0, 4, 128, 129, 130, 131, 135, 137, 139, 141, 142, 143, 144, 147, 148, 149,
                                150, 151, 152, 153, 154, 155, 156, 157, 158, 159, 160, 161, 162}

\* codes only a Client sends: DISCONNECT 0x04 (with Will Message), AUTH 0x19 (re-authenticate)
ClientOnly(cat) ==
    CASE cat = "disconnect" -> {4}
      [] cat = "auth"       -> {25}
      [] OTHER              -> {}

ServerMay(cat) == Listed(cat) \ ClientOnly(cat)

Expect(cat, b) == IF b \in ServerMay(cat) THEN "accept" ELSE IF b \in Listed(cat) THEN "either" ELSE "reject"

\* sanity of the transcription, checked by TLC as ASSUMEs in TraceRC
TablesSane == /\ \A cat \in Cats : Listed(cat) \subseteq 0..255 /\ ServerMay(cat) \subseteq Listed(cat)
              /\ \A cat \in Cats : 0 \in ServerMay(cat)
=============================================================================
