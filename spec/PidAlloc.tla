------------------------------ MODULE PidAlloc ------------------------------
(* packet_id_allocator (detail/control_packet.hpp): the interval-list         *)
(* algorithm, verbatim, and its meaning as a set of identifiers in use.       *)
(*                                                                            *)
(* _free_ids is a vector of intervals [start, end] with start > end meaning   *)
(* "identifiers end+1 .. start are free", sorted by descending start; the     *)
(* last element holds the lowest free identifiers.                            *)
(*   C08_a  allocate() returns the least identifier not in use, 0 iff all are *)
(*   C08_c  an identifier is handed out again only after free()               *)
(*   structural: sorted, disjoint, non-adjacent, covers exactly the free ids  *)
EXTENDS Integers, Sequences, FiniteSets

CONSTANT MaxPid

VARIABLES iv,      \* _free_ids
          used,    \* ghost: identifiers handed out and not freed
          last     \* ghost: [op, arg, ret] of the last call

vars == <<iv, used, last>>

Iv(s, e) == [s |-> s, e |-> e]

Init == iv = <<Iv(MaxPid, 0)>> /\ used = {} /\ last = [op |-> "init", arg |-> 0, ret |-> 0]

\* allocate(): result and new list, as the code computes them
AllocOf(v) ==
    IF v = << >> THEN [ret |-> 0, iv |-> v]
    ELSE LET n == Len(v)
             e1 == v[n].e + 1
         IN IF v[n].s = e1 THEN [ret |-> e1, iv |-> SubSeq(v, 1, n - 1)]
            ELSE [ret |-> e1, iv |-> [v EXCEPT ![n].e = e1]]

\* free(pid): std::upper_bound with comp(x, i) = x > i.start finds the first interval lying entirely below pid
UpperBound(v, pid) == IF \E i \in DOMAIN v : pid > v[i].s THEN CHOOSE i \in DOMAIN v : pid > v[i].s /\ \A j \in 1..(i - 1) : ~(pid > v[j].s)
                      ELSE Len(v) + 1
RemoveAt(v, i) == SubSeq(v, 1, i - 1) \o SubSeq(v, i + 1, Len(v))
InsertAt(v, i, x) == SubSeq(v, 1, i - 1) \o <<x>> \o SubSeq(v, i, Len(v))

FreeOf(v, pid) ==
    LET it == UpperBound(v, pid)
        hasPrev == it > 1 /\ v[it - 1].e = pid            \* the interval above starts right after pid
        below == it <= Len(v) /\ pid - 1 = v[it].s         \* the interval below ends right before pid
    IN IF below
         THEN IF ~hasPrev THEN [v EXCEPT ![it].s = pid]
              ELSE RemoveAt([v EXCEPT ![it - 1].e = v[it].e], it)
         ELSE IF ~hasPrev THEN InsertAt(v, it, Iv(pid, pid - 1))
              ELSE [v EXCEPT ![it - 1].e = pid - 1]

Allocate ==
    LET r == AllocOf(iv) IN
    /\ iv' = r.iv
    /\ used' = IF r.ret = 0 THEN used ELSE used \cup {r.ret}
    /\ last' = [op |-> "alloc", arg |-> 0, ret |-> r.ret]

Free(p) ==
    /\ p \in used
    /\ iv' = FreeOf(iv, p)
    /\ used' = used \ {p}
    /\ last' = [op |-> "free", arg |-> p, ret |-> 0]

Next == Allocate \/ \E p \in 1..MaxPid : Free(p)
Spec == Init /\ [][Next]_vars

-----------------------------------------------------------------------------
FreeIds(v) == UNION {(v[i].e + 1)..v[i].s : i \in DOMAIN v}

Structure ==
    /\ \A i \in DOMAIN iv : iv[i].s > iv[i].e /\ iv[i].e >= 0 /\ iv[i].s <= MaxPid
    /\ \A i \in 1..(Len(iv) - 1) : iv[i].e > iv[i + 1].s          \* descending, disjoint, and not adjacent

Refinement == FreeIds(iv) = (1..MaxPid) \ used

\* C08_a as a property of every allocate step
LeastFree ==
    last.op = "alloc" =>
        IF last.ret = 0 THEN used = 1..MaxPid
        ELSE /\ last.ret \in used
             /\ \A q \in 1..(last.ret - 1) : q \in used

\* the same, stated on the call: what allocate WILL return
AllocReturnsLeast ==
    LET r == AllocOf(iv).ret
        free == (1..MaxPid) \ used
    IN IF free = {} THEN r = 0 ELSE r = CHOOSE x \in free : \A y \in free : x <= y
=============================================================================
