SPECIFICATION Spec
CONSTANTS
  MaxConn = 5
  MaxSubs = 4
  DecideAtStart = FALSE OnlyClear = TRUE
INVARIANT ExactlyTheOwedReports
INVARIANT FlagFollowsGhost
CHECK_DEADLOCK FALSE
