SPECIFICATION Spec
INVARIANT Structure
POSTCONDITION Accepted
CHECK_DEADLOCK FALSE
