SPECIFICATION Spec
CONSTANT MaxPid = 10
INVARIANT Structure
INVARIANT Refinement
INVARIANT LeastFree
INVARIANT AllocReturnsLeast
CHECK_DEADLOCK FALSE
