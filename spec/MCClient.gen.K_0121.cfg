SPECIFICATION Spec
CONSTANTS
  NOps = 4
  KindOf <- K_0121
  RMs = {1, 65535}
  MaxFaults = 1
  MaxCancels = 0
  RecRcs = {0}
  QuotaResetFirst = FALSE
  ResendGuard = TRUE
  Observe = FALSE
INVARIANT EmitScript
VIEW ViewEngine
CHECK_DEADLOCK FALSE
