SPECIFICATION Spec
CONSTANTS Ks = {0, 1, 2} Latency = 1 MaxTime = 16 Rearm = TRUE
INVARIANTS PingOnTime NeverEarly SilenceBounded Zero
CHECK_DEADLOCK FALSE
