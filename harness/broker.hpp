// Simulated MQTT 5 broker on top of sim::world. Conformant by default
// (acknowledges only what it received, one acknowledgement per packet,
// retransmits on session resumption); every reaction can be held back and
// released by the scenario script so that any order / never is reachable.
#ifndef VERIF_BROKER_HPP
#define VERIF_BROKER_HPP

#include "simnet.hpp"
#include "refcodec.hpp"

namespace sim {

struct connack_cfg {
    int sp = -1;            // -1: as the session store says
    int rc = 0;
    ref::props_t props;     // capabilities etc.
};

struct obligation {
    int id; int conn; int kind /* ref::ptype of the reply */; int pid; int nt; int k /* b_recv seq answered */;
    std::vector<uint8_t> dflt_codes; int dflt_rc;
};

struct out_msg {            // broker -> client QoS 1/2 exchange kept for retransmission
    int pid; int qos; std::string msg; ref::packet pkt; int state; /* 0 sent, 1 pubrec received (PUBREL phase) */
};

struct broker {
    struct bconn { int id; int host; std::string inbuf; bool connected = false; bool closed = false; int auth_left = 0; std::string auth_method;
                   bool poisoned = false; /* hostile bytes left the stream mid-packet / malformed: the broker says nothing more on it */
                   size_t client_maxpkt = 65536; /* Maximum Packet Size of the client's CONNECT; the library's own limit when it announced none */ };
    std::map<int, bconn> conns;
    std::deque<connack_cfg> connack_queue;
    connack_cfg connack_default;
    std::vector<obligation> obl;
    std::set<int> hold;                 // reply kinds currently held
    bool session = false;               // broker holds a session for the client
    std::set<int> qos2_recv;            // inbound QoS 2 ids between PUBREC and PUBCOMP
    std::vector<out_msg> outbound;      // unacknowledged outbound exchanges, send order
    bool auto_retransmit = true;
    int auth_rounds = 0;                // enhanced authentication: AUTH(0x18) challenges before the CONNACK
    int next_obl = 1;
    long long krecv = 0, ksend = 0;
    long long malformed_from_client = 0;

    void reset() { *this = broker {}; }
    bool has_live_connection() const { for (auto& [id, c] : conns) if (c.connected && !c.closed && !c.poisoned) return true; return false; }

    static std::string msg_token(const std::string& payload) {
        auto p = payload.find('|');
        std::string t = p == std::string::npos ? payload.substr(0, 12) : payload.substr(0, p);
        for (auto& c : t) if ((unsigned char) c < 0x20 || (unsigned char) c >= 0x7f || c == '"' || c == '\\') c = '?';
        return t;
    }
    static int prop_num(const ref::props_t& ps, uint8_t id, int dflt) {
        for (auto& p : ps) if (p.id == id) return (int) p.num;
        return dflt;
    }

    void attach() {
        auto& w = W();
        w.on_conn_open = [this](int c, int host) { conns[c] = bconn { c, host }; };
        w.on_conn_end = [this](int c, const char*) { auto it = conns.find(c); if (it != conns.end()) it->second.closed = true; drop_obligations(c); };
        w.on_client_bytes = [this](int c, const std::string& b) { feed(c, b); };
        w.summarize = [](const std::string& d, int c, int wid, bool emit) {
            // one c_pkt event per packet the client hands to the transport, then the list of types
            std::string j = "["; size_t off = 0; bool first = true;
            while (off < d.size()) {
                ref::packet pk; size_t n = ref::decode_packet((const unsigned char*) d.data() + off, d.size() - off, pk);
                if (!first) j += ","; first = false;
                if (n == 0) { j += "\"PARTIAL\""; break; }
                j += "\""; j += pk.ok ? ref::type_name(pk.type) : "BAD"; j += "\"";
                std::string dig, msg;
                if (pk.ok && pk.type == ref::PUBLISH) { dig = ref::publish_digest(pk.topic, pk.payload, pk.qos, pk.retain, pk.props); msg = msg_token(pk.payload); }
                else if (pk.ok && (pk.type == ref::SUBSCRIBE || pk.type == ref::UNSUBSCRIBE)) dig = ref::subscribe_digest(pk.subs, pk.props);
                else if (pk.ok && pk.type == ref::CONNECT) dig = ref::connect_digest(pk);
                else if (pk.ok) dig = ref::props_digest(pk.props);
                if (emit) jev("c_pkt").i("c", c).i("w", wid).str("type", pk.ok ? ref::type_name(pk.type) : "BAD").i("pid", pk.pid < 0 ? 0 : pk.pid)
                    .i("qos", pk.qos).i("dup", pk.dup).i("rc", pk.rc < 0 ? 0 : pk.rc).str("msg", msg).str("dig", dig).i("len", (long long) n);
                off += n;
            }
            return j + "]";
        };
    }

    void drop_obligations(int c) {
        obl.erase(std::remove_if(obl.begin(), obl.end(), [c](const obligation& o) { return o.conn == c; }), obl.end());
    }

    // ---------------------------------------------------------------- input
    void feed(int c, const std::string& bytes) {
        auto it = conns.find(c); if (it == conns.end() || it->second.closed) return;
        it->second.inbuf += bytes;
        for (;;) {
            auto it2 = conns.find(c); if (it2 == conns.end() || it2->second.closed) return;
            auto& in = it2->second.inbuf;
            ref::packet pk;
            size_t n = ref::decode_packet((const unsigned char*) in.data(), in.size(), pk);
            if (n == 0) return;
            std::string raw = in.substr(0, n);
            in.erase(0, n);
            on_packet(it2->second, pk, raw);
        }
    }

    void log_recv(bconn& bc, const ref::packet& pk, const std::string& dig, const std::string& msg) {
        jev e("b_recv");
        e.i("c", bc.id).i("k", ++krecv).str("type", ref::type_name(pk.type)).i("ok", pk.ok ? 1 : 0)
            .i("pid", pk.pid < 0 ? 0 : pk.pid).i("rc", pk.rc < 0 ? 0 : pk.rc).str("dig", dig).i("len", (long long) pk.wire_len).str("err", pk.err);
        if (pk.type == ref::PUBLISH)
            e.i("qos", pk.qos).i("dup", pk.dup).i("retain", pk.retain).str("msg", msg).i("alias", prop_num(pk.props, 0x23, -1));
        else if (pk.type == ref::CONNECT)
            e.i("ka", pk.keepalive).i("cs", pk.clean_start);
        else if (pk.type == ref::SUBSCRIBE || pk.type == ref::UNSUBSCRIBE) {
            int subid = prop_num(pk.props, 0x0B, 0) ? 1 : 0, wild = 0, shared = 0;
            for (auto& s : pk.subs) {
                if (s.first.find('#') != std::string::npos || s.first.find('+') != std::string::npos) wild = 1;
                if (s.first.compare(0, 7, "$share/") == 0) shared = 1;
            }
            e.i("nt", (long long) pk.subs.size()).i("wild", wild).i("shared", shared).i("subid", subid);
        }
    }

    void on_packet(bconn& bc, const ref::packet& pk, const std::string&) {
        if (!pk.ok) {
            ++malformed_from_client;
            log_recv(bc, pk, "", "");
            return; // a real broker would close; keeping the connection lets the monitors see what follows
        }
        switch (pk.type) {
        case ref::CONNECT: {
            log_recv(bc, pk, ref::connect_digest(pk), "");
            bc.auth_left = 0; bc.auth_method.clear();
            for (auto& p : pk.props) if (p.id == 0x15) { bc.auth_method = p.s1; bc.auth_left = auth_rounds; }
            bc.client_maxpkt = 65536;
            for (auto& p : pk.props) if (p.id == 0x27) bc.client_maxpkt = p.num;
            if (bc.auth_left > 0) { --bc.auth_left; send_auth(bc); }
            else add_obl(bc.id, ref::CONNACK, 0, 0, 0, {});
            break; }
        case ref::PUBLISH: {
            log_recv(bc, pk, ref::publish_digest(pk.topic, pk.payload, pk.qos, pk.retain, pk.props), msg_token(pk.payload));
            if (pk.qos == 1) add_obl(bc.id, ref::PUBACK, pk.pid, 0, 0, {});
            if (pk.qos == 2) { qos2_recv.insert(pk.pid); add_obl(bc.id, ref::PUBREC, pk.pid, 0, 0, {}); }
            break; }
        case ref::PUBREL: {
            log_recv(bc, pk, ref::props_digest(pk.props), "");
            add_obl(bc.id, ref::PUBCOMP, pk.pid, 0, qos2_recv.count(pk.pid) ? 0 : 0x92, {});
            break; }
        case ref::PUBACK: case ref::PUBREC: case ref::PUBCOMP: {
            log_recv(bc, pk, ref::props_digest(pk.props), "");
            on_client_ack(bc, pk);
            break; }
        case ref::SUBSCRIBE: {
            log_recv(bc, pk, ref::subscribe_digest(pk.subs, pk.props), "");
            std::vector<uint8_t> codes; for (auto& s : pk.subs) codes.push_back(s.second & 3);
            add_obl(bc.id, ref::SUBACK, pk.pid, (int) pk.subs.size(), 0, codes);
            break; }
        case ref::UNSUBSCRIBE: {
            log_recv(bc, pk, ref::subscribe_digest(pk.subs, pk.props), "");
            add_obl(bc.id, ref::UNSUBACK, pk.pid, (int) pk.subs.size(), 0, std::vector<uint8_t>(pk.subs.size(), 0));
            break; }
        case ref::PINGREQ:
            log_recv(bc, pk, "", "");
            add_obl(bc.id, ref::PINGRESP, 0, 0, 0, {});
            break;
        case ref::DISCONNECT:
            log_recv(bc, pk, ref::props_digest(pk.props), "");
            bc.closed = true; drop_obligations(bc.id);
            W().broker_close(bc.id);
            break;
        case ref::AUTH:
            log_recv(bc, pk, ref::props_digest(pk.props), "");
            if (!bc.connected) { if (bc.auth_left > 0) { --bc.auth_left; send_auth(bc); } else add_obl(bc.id, ref::CONNACK, 0, 0, 0, {}); }
            break;
        default:
            log_recv(bc, pk, "", "");
        }
    }

    void on_client_ack(bconn& bc, const ref::packet& pk) {
        for (size_t i = 0; i < outbound.size(); ++i) {
            auto& m = outbound[i];
            if (m.pid != pk.pid) continue;
            if (pk.type == ref::PUBACK && m.qos == 1) { outbound.erase(outbound.begin() + i); return; }
            if (pk.type == ref::PUBREC && m.qos == 2) {
                if (pk.rc >= 0x80) { outbound.erase(outbound.begin() + i); return; }
                m.state = 1; add_obl(bc.id, ref::PUBREL, m.pid, 0, 0, {}); return;
            }
            if (pk.type == ref::PUBCOMP && m.qos == 2 && m.state == 1) { outbound.erase(outbound.begin() + i); return; }
            return;
        }
        if (pk.type == ref::PUBREC) add_obl(bc.id, ref::PUBREL, pk.pid, 0, 0x92, {}); // unknown id: MQTT says answer PUBREL (0x92)
    }

    void send_auth(bconn& bc) {
        ref::packet pk; pk.type = ref::AUTH; pk.rc = 0x18;
        pk.props.push_back(ref::prop { 0x15, 0, bc.auth_method, {} });
        pk.props.push_back(ref::prop { 0x16, 0, "challenge", {} });
        log_send(bc.id, pk, 0, "");
        W().broker_send(bc.id, ref::encode(pk));
    }

    // ---------------------------------------------------------------- obligations
    void add_obl(int c, int kind, int pid, int nt, int rc, std::vector<uint8_t> codes) {
        obligation o { next_obl++, c, kind, pid, nt, (int) krecv, std::move(codes), rc };
        obl.push_back(o);
        { auto itc = conns.find(c); if (itc != conns.end() && itc->second.poisoned) { obl.pop_back(); return; } }
        if (!hold.count(kind)) answer(obl.size() - 1, nullptr);
    }

    struct ack_override { int rc = -1; int rcx = -1; std::vector<int> codes; bool has_codes = false; ref::props_t props; int shortform = 0; };

    void log_send(int c, const ref::packet& pk, int ans, const std::string& msg) {
        std::vector<int> codes(pk.codes.begin(), pk.codes.end());
        auto num = [&](uint8_t id, int d) { return prop_num(pk.props, id, d); };
        jev e("b_send");
        e.i("c", c).i("k", ++ksend).str("type", ref::type_name(pk.type)).i("pid", pk.pid < 0 ? 0 : pk.pid)
            .i("rc", pk.rc < 0 ? 0 : pk.rc).str("dig", ref::props_digest(pk.props)).ilist("codes", codes).i("ans", ans);
        if (pk.type == ref::CONNACK)
            e.i("sp", pk.sp).i("rm", num(0x21, 65535)).i("mqos", num(0x24, 2)).i("ra", num(0x25, 1))
             .i("maxpkt", num(0x27, 0)).i("tam", num(0x22, 0)).i("wa", num(0x28, 1)).i("sha", num(0x2A, 1))
             .i("sia", num(0x29, 1)).i("ska", num(0x13, -1))
             // where the CONNACK ends in the byte stream of this connection: the client knows it once it has read that far
             .i("end", (long long) ref::encode(pk).size() + [&] { auto* cn = W().find_conn(c); return cn ? cn->b2c_total : 0LL; }());
        else if (pk.type == ref::PUBLISH)
            e.i("qos", pk.qos).i("dup", pk.dup).i("retain", pk.retain).str("msg", msg)
             .str("pdig", ref::publish_digest(pk.topic, pk.payload, 0, 0, pk.props));
    }

    // answers obligation at index i; returns false if there is none
    bool answer(size_t i, const ack_override* ov) {
        if (i >= obl.size()) return false;
        obligation o = obl[i];
        obl.erase(obl.begin() + i);
        auto it = conns.find(o.conn); if (it == conns.end() || it->second.closed || it->second.poisoned) return true;
        ref::packet pk; pk.type = (uint8_t) o.kind; pk.pid = o.pid; pk.rc = o.dflt_rc; pk.codes = o.dflt_codes;
        int shortform = 0;
        if (ov) {
            if (ov->rc >= 0) pk.rc = ov->rc;
            // rcx: a reason code for whatever acknowledgement this obligation turns out to be, used only where MQTT admits it there
            if (ov->rcx >= 0 && (o.kind == ref::PUBACK || o.kind == ref::PUBREC || o.kind == ref::PUBCOMP)) {
                ref::packet probe; probe.type = (uint8_t) o.kind; probe.rc = ov->rcx;
                if (server_may_send(probe, true)) pk.rc = ov->rcx;
            }
            if (ov->has_codes) { pk.codes.clear(); for (int c : ov->codes) pk.codes.push_back((uint8_t) c); }
            pk.props = ov->props; shortform = ov->shortform;
        }
        if (o.kind == ref::CONNACK) {
            connack_cfg cfg = connack_default;
            if (!connack_queue.empty()) { cfg = connack_queue.front(); connack_queue.pop_front(); }
            if (ov && ov->rc >= 0) cfg.rc = ov->rc;
            pk.rc = cfg.rc; pk.props = cfg.props;
            if (!it->second.auth_method.empty()) pk.props.push_back(ref::prop { 0x15, 0, it->second.auth_method, {} });
            int sp = cfg.sp < 0 ? (session ? 1 : 0) : cfg.sp;
            if (cfg.rc >= 0x80) sp = 0;
            pk.sp = sp;
            if (cfg.rc < 0x80) {
                if (!sp) { qos2_recv.clear(); outbound.clear(); }
                session = true;
                it->second.connected = true;
            }
            log_send(o.conn, pk, o.k, "");
            W().broker_send(o.conn, ref::encode(pk));
            if (cfg.rc >= 0x80) { it->second.closed = true; drop_obligations(o.conn); W().broker_close(o.conn); return true; }
            if (sp && auto_retransmit) retransmit(o.conn);
            return true;
        }
        if (o.kind == ref::PUBCOMP) qos2_recv.erase(o.pid);
        if (o.kind == ref::PUBREC && pk.rc >= 0x80) qos2_recv.erase(o.pid);
        log_send(o.conn, pk, o.k, "");
        W().broker_send(o.conn, ref::encode(pk, shortform));
        return true;
    }

    void release_all() { hold.clear(); while (!obl.empty()) answer(0, nullptr); }

    // ---------------------------------------------------------------- broker-initiated
    int free_out_pid() const {
        for (int p = 1;; ++p) { bool used = false; for (auto& m : outbound) if (m.pid == p) used = true; if (!used) return p; }
    }
    int publish(int c, const std::string& topic, const std::string& payload, int qos, int retain, const ref::props_t& props) {
        auto it = conns.find(c); if (it == conns.end() || it->second.closed || it->second.poisoned) return -1;
        if (!it->second.connected) return -1;      // a conformant broker sends nothing before its CONNACK
        ref::packet pk; pk.type = ref::PUBLISH; pk.topic = topic; pk.payload = payload; pk.qos = qos; pk.retain = retain; pk.props = props;
        if (qos) { pk.pid = free_out_pid(); outbound.push_back(out_msg { pk.pid, qos, msg_token(payload), pk, 0 }); }
        log_send(c, pk, 0, msg_token(payload));
        W().broker_send(c, ref::encode(pk));
        return pk.pid;
    }
    void send_pubrel(int c, int pid) {
        auto it = conns.find(c); if (it == conns.end() || it->second.closed || it->second.poisoned) return;
        ref::packet pk; pk.type = ref::PUBREL; pk.pid = pid; pk.rc = 0;
        bool known = false; for (auto& m : outbound) if (m.pid == pid && m.qos == 2) known = true;
        if (!known) pk.rc = 0x92;
        log_send(c, pk, 0, "");
        W().broker_send(c, ref::encode(pk));
    }
    void retransmit(int c) {
        for (auto& m : outbound) {
            if (m.state == 0) { ref::packet pk = m.pkt; pk.dup = 1; log_send(c, pk, 0, m.msg); W().broker_send(c, ref::encode(pk)); }
            else send_pubrel(c, m.pid);
        }
    }
    void disconnect(int c, int rc, const ref::props_t& props) {
        auto it = conns.find(c); if (it == conns.end() || it->second.closed) return;
        ref::packet pk; pk.type = ref::DISCONNECT; pk.rc = rc; pk.props = props;
        log_send(c, pk, 0, "");
        W().broker_send(c, ref::encode(pk));
        it->second.closed = true; drop_obligations(c);
        W().broker_close(c);
    }
    void close(int c) {
        auto it = conns.find(c); if (it == conns.end() || it->second.closed) return;
        it->second.closed = true; drop_obligations(c);
        W().broker_close(c);
    }
    // Raw bytes from a (possibly hostile) broker.  What the broker sends is logged for the observer:
    // every complete packet that IS well-formed MQTT is logged as a normal b_send (so that an operation it
    // legitimately completes is not mistaken for a false success); anything else as b_raw with ok=0.
    void raw(int c, const std::string& bytes) {
        auto it = conns.find(c); if (it == conns.end() || it->second.closed || it->second.poisoned) return;
        size_t off = 0; int good = 0; bool close_after = false;
        bool save_strict = ref::strict_strings; ref::strict_strings = false;
        // the leading packets that are well-formed and that a server may send here are ordinary broker packets
        while (off < bytes.size()) {
            ref::packet pk; size_t n = ref::decode_packet((const unsigned char*) bytes.data() + off, bytes.size() - off, pk);
            if (n == 0 || !pk.ok || !server_may_send(pk, it->second.connected)) break;
            if (n > it->second.client_maxpkt) break;        // larger than the client accepts: not a packet a server may send
            int ans = 0;
            for (size_t i = 0; i < obl.size(); ++i)
                if (obl[i].conn == c && obl[i].kind == pk.type && obl[i].pid == (pk.pid < 0 ? 0 : pk.pid)) { ans = obl[i].k; obl.erase(obl.begin() + i); break; }
            if (pk.type == ref::PUBCOMP) qos2_recv.erase(pk.pid);
            if (pk.type == ref::CONNACK) { if (pk.rc < 0x80) { if (!pk.sp) { qos2_recv.clear(); outbound.clear(); } session = true; it->second.connected = true; } else close_after = true; }
            if (pk.type == ref::PUBLISH && pk.qos) outbound.push_back(out_msg { pk.pid, pk.qos, msg_token(pk.payload), pk, 0 });
            if (pk.type == ref::DISCONNECT) close_after = true;
            log_send(c, pk, ans, pk.type == ref::PUBLISH ? msg_token(pk.payload) : std::string());
            ++good; off += n;
            if (close_after) break;
        }
        ref::strict_strings = save_strict;
        bool rest = off < bytes.size();
        if (rest) { it->second.poisoned = true; drop_obligations(c); }
        if (rest) jev("b_raw").i("c", c).i("nb", (long long) (bytes.size() - off)).i("ok", 0).i("good", good);
        W().broker_send(c, bytes);
        if (close_after && !rest) { it->second.closed = true; drop_obligations(c); W().broker_close(c); }
    }
    // packets a server may send at all, with admissible reason codes (a stricter notion than "decodes")
    static bool server_may_send(const ref::packet& pk, bool connected) {
        auto in = [](int v, std::initializer_list<int> s) { for (int x : s) if (x == v) return true; return false; };
        if (!connected) return pk.type == ref::CONNACK && in(pk.rc, { 0, 128, 129, 130, 131, 132, 133, 134, 135, 136, 137, 138, 140, 144, 149, 151, 153, 154, 155, 156, 157, 159 });
        switch (pk.type) {
            case ref::PUBLISH: return pk.topic.find('#') == std::string::npos && pk.topic.find('+') == std::string::npos && !pk.topic.empty();
            case ref::PUBACK: case ref::PUBREC: return in(pk.rc, { 0, 16, 128, 131, 135, 144, 145, 151, 153 });
            case ref::PUBREL: case ref::PUBCOMP: return in(pk.rc, { 0, 146 });
            case ref::SUBACK: for (auto x : pk.codes) if (!in(x, { 0, 1, 2, 128, 131, 135, 143, 145, 151, 158, 161, 162 })) return false; return true;
            case ref::UNSUBACK: for (auto x : pk.codes) if (!in(x, { 0, 17, 128, 131, 135, 143, 145 })) return false; return true;
            case ref::PINGRESP: return true;
            case ref::DISCONNECT: return in(pk.rc, { 0, 128, 129, 130, 131, 135, 137, 139, 141, 142, 143, 144, 147, 148, 149, 150, 151, 152, 153, 154, 155, 156, 157, 158, 159, 160, 161, 162 });
            default: return false;   // CONNACK twice, AUTH without authenticator, client-only packet types
        }
    }
};

} // namespace sim

#endif
