// C20 driver: calls the real to_reason_code<category>(byte) for all 9 x 256 pairs.
// The header is included inside an anonymous namespace so that the lookup tables get
// internal linkage and AddressSanitizer red zones; built with -fsanitize=address
// -fsanitize-recover=address so that every out-of-table access is reported (stderr,
// after a "PROBE <cat> <byte>" marker) and the enumeration continues.
#include <algorithm>
#include <cstdint>
#include <cstdio>
#include <optional>
#include <ostream>
#include <string>
#include <type_traits>
#include <utility>
namespace {
#include <boost/mqtt5/reason_codes.hpp>
}
namespace rc = boost::mqtt5::reason_codes;

template <rc::category C>
static void run(const char* name, FILE* out) {
    for (int b = 0; b < 256; ++b) {
        fprintf(stderr, "PROBE %s %d\n", name, b); fflush(stderr);
        auto r = boost::mqtt5::to_reason_code<C>((uint8_t) b);
        fprintf(out, "{\"cat\":\"%s\",\"b\":%d,\"has\":%d,\"val\":%d}\n", name, b, r.has_value() ? 1 : 0, r.has_value() ? (int) r->value() : -1);
    }
}

// The verdict must not depend on what was looked up before ("for every byte and every packet type" - also for every
// history of earlier lookups): every byte is looked up again right after each category accepted it.
template <rc::category A, rc::category B>
static void after(const char* a, const char* b, FILE* out) {
    for (int x = 0; x < 256; ++x) {
        auto first = boost::mqtt5::to_reason_code<A>((uint8_t) x);
        if (!first.has_value()) continue;
        fprintf(stderr, "PROBE %s %d after %s\n", b, x, a); fflush(stderr);
        auto r = boost::mqtt5::to_reason_code<B>((uint8_t) x);
        fprintf(out, "{\"cat\":\"%s\",\"b\":%d,\"has\":%d,\"val\":%d}\n", b, x, r.has_value() ? 1 : 0, r.has_value() ? (int) r->value() : -1);
    }
}
template <rc::category A>
static void after_all(const char* a, FILE* out) {
    after<A, rc::category::connack>(a, "connack", out); after<A, rc::category::puback>(a, "puback", out);
    after<A, rc::category::pubrec>(a, "pubrec", out); after<A, rc::category::pubrel>(a, "pubrel", out);
    after<A, rc::category::pubcomp>(a, "pubcomp", out); after<A, rc::category::suback>(a, "suback", out);
    after<A, rc::category::unsuback>(a, "unsuback", out); after<A, rc::category::auth>(a, "auth", out);
    after<A, rc::category::disconnect>(a, "disconnect", out);
}

int main(int argc, char** argv) {
    FILE* out = argc > 1 ? fopen(argv[1], "w") : stdout;
    if (!out) return 2;
    run<rc::category::connack>("connack", out);
    run<rc::category::puback>("puback", out);
    run<rc::category::pubrec>("pubrec", out);
    run<rc::category::pubrel>("pubrel", out);
    run<rc::category::pubcomp>("pubcomp", out);
    run<rc::category::suback>("suback", out);
    run<rc::category::unsuback>("unsuback", out);
    run<rc::category::auth>("auth", out);
    run<rc::category::disconnect>("disconnect", out);
    after_all<rc::category::connack>("connack", out); after_all<rc::category::puback>("puback", out);
    after_all<rc::category::pubrec>("pubrec", out); after_all<rc::category::pubrel>("pubrel", out);
    after_all<rc::category::pubcomp>("pubcomp", out); after_all<rc::category::suback>("suback", out);
    after_all<rc::category::unsuback>("unsuback", out); after_all<rc::category::auth>("auth", out);
    after_all<rc::category::disconnect>("disconnect", out);
    fclose(out);
    return 0;
}
