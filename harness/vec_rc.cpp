// C20 driver: calls the real to_reason_code<category>(byte) for all 9 x 256 pairs.
// The header is included inside an anonymous namespace so that the lookup tables get
// internal linkage and AddressSanitizer red zones; built with -fsanitize=address
// -fsanitize-recover=address so that every out-of-table access is reported (stderr,
// after a "PROBE <cat> <byte>" marker) and the enumeration continues.
#include <algorithm>
#include <cstdint>
#include <cstdio>
#include <optional>
#include <ostream>
#include <string>
#include <type_traits>
#include <utility>
namespace {
#include <boost/mqtt5/reason_codes.hpp>
}
namespace rc = boost::mqtt5::reason_codes;

template <rc::category C>
static void run(const char* name, FILE* out) {
    for (int b = 0; b < 256; ++b) {
        fprintf(stderr, "PROBE %s %d\n", name, b); fflush(stderr);
        auto r = boost::mqtt5::to_reason_code<C>((uint8_t) b);
        fprintf(out, "{\"cat\":\"%s\",\"b\":%d,\"has\":%d,\"val\":%d}\n", name, b, r.has_value() ? 1 : 0, r.has_value() ? (int) r->value() : -1);
    }
}

int main(int argc, char** argv) {
    FILE* out = argc > 1 ? fopen(argv[1], "w") : stdout;
    if (!out) return 2;
    run<rc::category::connack>("connack", out);
    run<rc::category::puback>("puback", out);
    run<rc::category::pubrec>("pubrec", out);
    run<rc::category::pubrel>("pubrel", out);
    run<rc::category::pubcomp>("pubcomp", out);
    run<rc::category::suback>("suback", out);
    run<rc::category::unsuback>("unsuback", out);
    run<rc::category::auth>("auth", out);
    run<rc::category::disconnect>("disconnect", out);
    fclose(out);
    return 0;
}
