# stand-alone drivers for pure functions / small components (no mqtt_client instantiation)
REPO ?= /repo
OUT  ?= /verif/_work/bin
CXX  ?= g++
SAN  = -fsanitize=address,undefined -fsanitize-recover=address -fno-omit-frame-pointer -g

all: $(OUT)/vec_rc $(OUT)/drv_pid $(OUT)/drv_mutex

$(OUT)/vec_rc: vec_rc.cpp | $(OUT)
	$(CXX) -std=c++17 -O1 $(SAN) -I$(REPO)/include -MMD -MF $@.d -MT $@ $< -o $@
$(OUT)/drv_pid: drv_pid.cpp | $(OUT)
	$(CXX) -std=c++17 -O1 $(SAN) -DBOOST_MQTT5_VERIF=1 -I$(REPO)/include -MMD -MF $@.d -MT $@ $< -o $@
$(OUT)/drv_mutex: drv_mutex.cpp | $(OUT)
	$(CXX) -std=c++17 -O1 -g -pthread -DBOOST_MQTT5_VERIF=1 -I$(REPO)/include -MMD -MF $@.d -MT $@ $< -o $@

$(OUT):
	mkdir -p $(OUT)
-include $(wildcard $(OUT)/vec_rc.d $(OUT)/drv_pid.d $(OUT)/drv_mutex.d)
.PHONY: all
