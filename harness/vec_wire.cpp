// vec_wire: replays the packet vectors enumerated by TLC from spec/WireVec.tla into the REAL
// encoders / decoders of the library and records what they do (properties C17 / C18).
//
//   vec_wire <vectors.ndjson> <results.ndjson>
//
// vector line:  {"id","type","dir","fam","form","pkt":{abstract fields},"rl","bytes":[[b,n],..]}
//   dir "c2s" (C17): the library ENCODER is called with the fields of pkt; its output is recorded
//       "lib":{"bytes":[[b,n],..],"len":N,"xok":bool}
//   dir "s2c" (C18): the reference bytes are fed to the library DECODER the way the client does it
//       (fixed header split off, packet identifier of replies consumed by decode_packet_id, then
//       decode_xxx(remaining_length, it)); recorded: success and every decoded field; the decoded result
//       is encoded again by the library encoder (where one exists) and decoded once more
//       "lib":{"ok":bool,"pkt":{..},"re":{"has":bool,"bytes":[..],"ok":bool,"pkt":{..}}}
// Byte strings travel in run-length form [[byte,count],..]; Four Byte Integers as [hi16,lo16] (TLC has
// 32-bit integers).  The verdict is NOT taken here: spec/TraceWire.tla decides with spec/Wire.tla.
// harness/refcodec.hpp is used for one informational cross-check only ("xok").
#include <boost/mqtt5/types.hpp>
#include <boost/mqtt5/impl/codecs/message_decoders.hpp>
#include <boost/mqtt5/impl/codecs/message_encoders.hpp>

#include <boost/json/src.hpp>

#include "refcodec.hpp"

#include <cstdio>
#include <fstream>
#include <iostream>
#include <optional>
#include <string>
#include <vector>

namespace json = boost::json;
namespace mq = boost::mqtt5;
using mq::detail::byte_citer;

// ---------------------------------------------------------------- byte strings
static std::string bstr(const json::value& v) {
    std::string out;
    for (auto& r : v.as_array()) {
        auto& a = r.as_array();
        out.append((size_t) a[1].to_number<long long>(), (char) a[0].to_number<int>());
    }
    return out;
}
static void rle(std::string& o, const std::string& s) {
    o += '[';
    size_t i = 0, n = s.size(); bool first = true;
    while (i < n) {
        size_t j = i + 1;
        while (j < n && s[j] == s[i]) ++j;
        if (!first) o += ',';
        first = false;
        o += '['; o += std::to_string((unsigned) (unsigned char) s[i]); o += ','; o += std::to_string(j - i); o += ']';
        i = j;
    }
    o += ']';
}
static std::string rle(const std::string& s) { std::string o; rle(o, s); return o; }

// ---------------------------------------------------------------- properties
// generic property list <-> the library's property classes (by props.visit)
struct gprop { int id; uint64_t num = 0; std::string s1, s2; };

template <class Props>
static std::vector<int> set_props(Props& ps, const json::value& list) {
    std::vector<int> unsupported;
    for (auto& e : list.as_array()) {
        auto& o = e.as_object();
        const int id = o.at("id").to_number<int>();
        const json::value& v = o.at("v");
        bool found = false;
        ps.visit([&](auto p, auto& slot) {
            using V = std::decay_t<decltype(slot)>;
            if ((int) (uint8_t) static_cast<mq::prop::property_type>(p) != id) return true;
            found = true;
            if constexpr (std::is_same_v<V, mq::prop::user_property_value_t>)
                slot.emplace_back(bstr(v.as_array()[0]), bstr(v.as_array()[1]));
            else if constexpr (std::is_same_v<V, mq::prop::subscription_identifiers>)
                slot.push_back((int32_t) v.to_number<long long>());
            else if constexpr (std::is_same_v<V, std::optional<std::string>>)
                slot = bstr(v);
            else if constexpr (std::is_same_v<V, std::optional<uint32_t>>)
                slot = (uint32_t) ((uint32_t) v.as_array()[0].to_number<long long>() * 65536u + (uint32_t) v.as_array()[1].to_number<long long>());
            else
                slot = (typename V::value_type) v.to_number<long long>();
            return true;
        });
        if (!found) unsupported.push_back(id);
    }
    return unsupported;
}

template <class Props>
static std::string get_props(const Props& ps) {
    std::string o = "[";
    bool first = true;
    auto item = [&](int id) { if (!first) o += ','; first = false; o += "{\"id\":" + std::to_string(id) + ",\"v\":"; };
    ps.visit([&](auto p, const auto& slot) {
        using V = std::decay_t<decltype(slot)>;
        const int id = (int) (uint8_t) static_cast<mq::prop::property_type>(p);
        if constexpr (std::is_same_v<V, mq::prop::user_property_value_t>) {
            for (auto& kv : slot) { item(id); o += '['; rle(o, kv.first); o += ','; rle(o, kv.second); o += "]}"; }
        } else if constexpr (std::is_same_v<V, mq::prop::subscription_identifiers>) {
            for (auto x : slot) { item(id); o += std::to_string((long long) x); o += '}'; }
        } else if constexpr (std::is_same_v<V, std::optional<std::string>>) {
            if (slot) { item(id); rle(o, *slot); o += '}'; }
        } else if constexpr (std::is_same_v<V, std::optional<uint32_t>>) {
            if (slot) { item(id); o += '[' + std::to_string(*slot >> 16) + ',' + std::to_string(*slot & 0xffffu) + "]}"; }
        } else {
            if (slot) { item(id); o += std::to_string((unsigned long long) *slot); o += '}'; }
        }
        return true;
    });
    return o + "]";
}

static long long geti(const json::object& o, const char* k) { return o.at(k).to_number<long long>(); }

// ---------------------------------------------------------------- C17: the real encoders
static std::string encode_with_library(const std::string& type, const json::object& p, std::vector<int>& unsupported) {
    using namespace mq::encoders;
    auto add = [&](std::vector<int> u) { unsupported.insert(unsupported.end(), u.begin(), u.end()); };
    if (type == "CONNECT") {
        mq::connect_props cp; add(set_props(cp, p.at("props")));
        std::string cid = bstr(p.at("cid"));
        std::optional<std::string> user, pass;
        if (!p.at("user").as_array().empty()) user = bstr(p.at("user").as_array()[0]);
        if (!p.at("pass").as_array().empty()) pass = bstr(p.at("pass").as_array()[0]);
        std::optional<std::string_view> userv, passv;
        if (user) userv = *user;
        if (pass) passv = *pass;
        std::optional<mq::will> w;
        if (!p.at("will").as_array().empty()) {
            auto& wo = p.at("will").as_array()[0].as_object();
            mq::will_props wp; add(set_props(wp, wo.at("props")));
            w.emplace(bstr(wo.at("topic")), bstr(wo.at("payload")), mq::qos_e(geti(wo, "qos")), mq::retain_e(geti(wo, "retain")), std::move(wp));
        }
        return encode_connect(cid, userv, passv, (uint16_t) geti(p, "keepalive"), geti(p, "clean") != 0, cp, w);
    }
    if (type == "PUBLISH") {
        mq::publish_props pp; add(set_props(pp, p.at("props")));
        std::string topic = bstr(p.at("topic")), payload = bstr(p.at("payload"));
        return encode_publish((uint16_t) geti(p, "pid"), topic, payload, mq::qos_e(geti(p, "qos")), mq::retain_e(geti(p, "retain")),
                              mq::dup_e(geti(p, "dup")), pp);
    }
    if (type == "PUBACK") { mq::puback_props pr; add(set_props(pr, p.at("props"))); return encode_puback((uint16_t) geti(p, "pid"), (uint8_t) geti(p, "rc"), pr); }
    if (type == "PUBREC") { mq::pubrec_props pr; add(set_props(pr, p.at("props"))); return encode_pubrec((uint16_t) geti(p, "pid"), (uint8_t) geti(p, "rc"), pr); }
    if (type == "PUBREL") { mq::pubrel_props pr; add(set_props(pr, p.at("props"))); return encode_pubrel((uint16_t) geti(p, "pid"), (uint8_t) geti(p, "rc"), pr); }
    if (type == "PUBCOMP") { mq::pubcomp_props pr; add(set_props(pr, p.at("props"))); return encode_pubcomp((uint16_t) geti(p, "pid"), (uint8_t) geti(p, "rc"), pr); }
    if (type == "SUBSCRIBE") {
        mq::subscribe_props sp; add(set_props(sp, p.at("props")));
        std::vector<mq::subscribe_topic> topics;
        for (auto& t : p.at("topics").as_array()) {
            auto& o = t.as_object();
            mq::subscribe_options so;
            so.max_qos = mq::qos_e(geti(o, "qos")); so.no_local = mq::no_local_e(geti(o, "nl"));
            so.retain_as_published = mq::retain_as_published_e(geti(o, "rap")); so.retain_handling = mq::retain_handling_e(geti(o, "rh"));
            topics.push_back(mq::subscribe_topic { bstr(o.at("filter")), so });
        }
        return encode_subscribe((uint16_t) geti(p, "pid"), topics, sp);
    }
    if (type == "UNSUBSCRIBE") {
        mq::unsubscribe_props up; add(set_props(up, p.at("props")));
        std::vector<std::string> topics;
        for (auto& t : p.at("topics").as_array()) topics.push_back(bstr(t));
        return encode_unsubscribe((uint16_t) geti(p, "pid"), topics, up);
    }
    if (type == "PINGREQ") return encode_pingreq();
    if (type == "DISCONNECT") { mq::disconnect_props dp; add(set_props(dp, p.at("props"))); return encode_disconnect((uint8_t) geti(p, "rc"), dp); }
    if (type == "AUTH") { mq::auth_props ap; add(set_props(ap, p.at("props"))); return encode_auth((uint8_t) geti(p, "rc"), ap); }
    throw std::runtime_error("no client-side encoder for " + type);
}

// ---------------------------------------------------------------- C18: the real decoders
struct decoded { bool ok = false; std::string pkt = "{}"; bool has_re = false; std::string re; };

static std::string codes_json(const std::vector<uint8_t>& c) {
    std::string o = "[";
    for (size_t i = 0; i < c.size(); ++i) { if (i) o += ','; o += std::to_string((unsigned) c[i]); }
    return o + "]";
}

// decodes one packet the way the client does; on success fills pkt (abstract fields) and, if reencode,
// the bytes the library encoder produces for the decoded fields
static decoded decode_with_library(const std::string& type, const std::string& wire, bool reencode) {
    using namespace mq::decoders;
    namespace enc = mq::encoders;
    decoded d;
    byte_citer it = wire.cbegin(), last = wire.cend();
    auto fh = decode_fixed_header(it, last);
    if (!fh) return d;
    const auto [cb, rl] = *fh;
    if ((size_t) std::distance(it, last) != rl) return d;            // the client hands over exactly the packet
    const std::string T = "\"type\":\"" + type + "\"";
    if (type == "CONNACK") {
        auto rv = decode_connack(rl, it); if (!rv) return d;
        const auto& [sp, rc, props] = *rv;
        d.ok = true;
        d.pkt = "{" + T + ",\"sp\":" + std::to_string((unsigned) sp) + ",\"rc\":" + std::to_string((unsigned) rc) + ",\"props\":" + get_props(props) + "}";
        if (reencode) { d.has_re = true; d.re = enc::encode_connack(sp != 0, rc, props); }
    } else if (type == "PUBLISH") {
        auto rv = decode_publish(cb, rl, it); if (!rv) return d;
        const auto& [topic, pid, flags, props, payload] = *rv;
        d.ok = true;
        d.pkt = "{" + T + ",\"dup\":" + std::to_string((flags >> 3) & 1) + ",\"qos\":" + std::to_string((flags >> 1) & 3) + ",\"retain\":" + std::to_string(flags & 1)
              + ",\"topic\":" + rle(topic) + ",\"pid\":" + std::to_string(pid ? (unsigned) *pid : 0u) + ",\"props\":" + get_props(props) + ",\"payload\":" + rle(payload) + "}";
        if (reencode) {
            d.has_re = true;
            d.re = enc::encode_publish(pid.value_or(0), topic, payload, mq::qos_e((flags >> 1) & 3), mq::retain_e(flags & 1), mq::dup_e((flags >> 3) & 1), props);
        }
    } else if (type == "PUBACK" || type == "PUBREC" || type == "PUBREL" || type == "PUBCOMP") {
        if (rl < 2) return d;
        auto pid = decode_packet_id(it); if (!pid) return d;
        uint8_t rc = 0; std::string pj;
        auto fill = [&](auto& rv, auto encf) {
            if (!rv) return;
            const auto& [c, props] = *rv;
            d.ok = true; rc = c; pj = get_props(props);
            if (reencode) { d.has_re = true; d.re = encf(*pid, c, props); }
        };
        if (type == "PUBACK") { auto rv = decode_puback(rl - 2, it); fill(rv, [](uint16_t i, uint8_t c, const mq::puback_props& p) { return enc::encode_puback(i, c, p); }); }
        else if (type == "PUBREC") { auto rv = decode_pubrec(rl - 2, it); fill(rv, [](uint16_t i, uint8_t c, const mq::pubrec_props& p) { return enc::encode_pubrec(i, c, p); }); }
        else if (type == "PUBREL") { auto rv = decode_pubrel(rl - 2, it); fill(rv, [](uint16_t i, uint8_t c, const mq::pubrel_props& p) { return enc::encode_pubrel(i, c, p); }); }
        else { auto rv = decode_pubcomp(rl - 2, it); fill(rv, [](uint16_t i, uint8_t c, const mq::pubcomp_props& p) { return enc::encode_pubcomp(i, c, p); }); }
        if (!d.ok) return d;
        d.pkt = "{" + T + ",\"pid\":" + std::to_string((unsigned) *pid) + ",\"rc\":" + std::to_string((unsigned) rc) + ",\"props\":" + pj + "}";
    } else if (type == "SUBACK" || type == "UNSUBACK") {
        if (rl < 2) return d;
        auto pid = decode_packet_id(it); if (!pid) return d;
        std::string pj, cj;
        if (type == "SUBACK") {
            auto rv = decode_suback(rl - 2, it); if (!rv) return d;
            const auto& [props, codes] = *rv;
            pj = get_props(props); cj = codes_json(codes);
            if (reencode) { d.has_re = true; d.re = enc::encode_suback(*pid, codes, props); }
        } else {
            auto rv = decode_unsuback(rl - 2, it); if (!rv) return d;
            const auto& [props, codes] = *rv;
            pj = get_props(props); cj = codes_json(codes);
            if (reencode) { d.has_re = true; d.re = enc::encode_unsuback(*pid, codes, props); }
        }
        d.ok = true;
        d.pkt = "{" + T + ",\"pid\":" + std::to_string((unsigned) *pid) + ",\"props\":" + pj + ",\"codes\":" + cj + "}";
    } else if (type == "DISCONNECT") {
        auto rv = decode_disconnect(rl, it); if (!rv) return d;
        const auto& [rc, props] = *rv;
        d.ok = true;
        d.pkt = "{" + T + ",\"rc\":" + std::to_string((unsigned) rc) + ",\"props\":" + get_props(props) + "}";
        if (reencode) { d.has_re = true; d.re = enc::encode_disconnect(rc, props); }
    } else if (type == "AUTH") {
        auto rv = decode_auth(rl, it); if (!rv) return d;
        const auto& [rc, props] = *rv;
        d.ok = true;
        d.pkt = "{" + T + ",\"rc\":" + std::to_string((unsigned) rc) + ",\"props\":" + get_props(props) + "}";
        if (reencode) { d.has_re = true; d.re = enc::encode_auth(rc, props); }
    } else if (type == "PINGRESP") {
        // no decoder: assemble_op recognises it by the control byte; remaining length must be 0
        d.ok = (cb == 0xD0 && rl == 0);
        d.pkt = "{" + T + "}";
        if (reencode) { d.has_re = true; d.re = enc::encode_pingresp(); }
    } else
        throw std::runtime_error("no client-side decoder for " + type);
    return d;
}

int main(int argc, char** argv) {
    if (argc < 3) { fprintf(stderr, "usage: vec_wire <vectors.ndjson> <results.ndjson>\n"); return 2; }
    std::ifstream in(argv[1]);
    if (!in) { fprintf(stderr, "vec_wire: cannot read %s\n", argv[1]); return 2; }
    FILE* out = fopen(argv[2], "w");
    if (!out) { fprintf(stderr, "vec_wire: cannot write %s\n", argv[2]); return 2; }
    std::string line; size_t n = 0, nenc = 0, ndec = 0;
    while (std::getline(in, line)) {
        if (line.empty()) continue;
        json::value jv = json::parse(line);
        const json::object& v = jv.as_object();
        const std::string type(v.at("type").as_string().c_str()), dir(v.at("dir").as_string().c_str());
        std::string o = "{\"id\":" + std::to_string(geti(v, "id")) + ",\"type\":\"" + type + "\",\"dir\":\"" + dir + "\",\"fam\":" + json::serialize(v.at("fam"))
                      + ",\"form\":" + json::serialize(v.at("form")) + ",\"pkt\":" + json::serialize(v.at("pkt")) + ",\"bytes\":" + json::serialize(v.at("bytes")) + ",\"lib\":";
        try {
            if (dir == "c2s") {
                std::vector<int> unsupported;
                std::string wire = encode_with_library(type, v.at("pkt").as_object(), unsupported);
                ref::packet rp;
                size_t used = ref::decode_packet((const unsigned char*) wire.data(), wire.size(), rp);
                o += "{\"bytes\":" + rle(wire) + ",\"len\":" + std::to_string(wire.size()) + ",\"xok\":" + ((rp.ok && used == wire.size()) ? "true" : "false")
                   + ",\"unsupported\":" + std::to_string(unsupported.size()) + "}";
                ++nenc;
            } else {
                std::string wire = bstr(v.at("bytes"));
                decoded d = decode_with_library(type, wire, true);
                o += std::string("{\"ok\":") + (d.ok ? "true" : "false") + ",\"pkt\":" + d.pkt + ",\"re\":{\"has\":" + (d.has_re ? "true" : "false");
                if (d.has_re) {
                    decoded d2 = decode_with_library(type, d.re, false);
                    o += ",\"bytes\":" + rle(d.re) + ",\"ok\":" + (d2.ok ? "true" : "false") + ",\"pkt\":" + d2.pkt;
                }
                o += "}}";
                ++ndec;
            }
        } catch (const std::exception& e) {
            o += "{\"ok\":false,\"exc\":" + json::serialize(json::value(e.what())) + ",\"bytes\":[],\"len\":0,\"xok\":false,\"unsupported\":0,\"pkt\":{},\"re\":{\"has\":false}}";
        }
        o += "}\n";
        fwrite(o.data(), 1, o.size(), out);
        ++n;
    }
    fclose(out);
    printf("vec_wire: %zu vectors, %zu encoded, %zu decoded\n", n, nenc, ndec);
    return 0;
}
