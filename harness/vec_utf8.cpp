// Property C16: vector driver for the request validators.
//
// Enumerates byte strings and calls the REAL validators of the library
// (boost/mqtt5/detail/utf8_mqtt.hpp, topic_validation.hpp); writes one ndjson line per input
// with everything the validators answered.  The lines are judged by spec/TraceUtf8.tla against
// the reference spec/Utf8Topic.tla.  Nothing in here decides what is right or wrong.
//
//   vec_utf8 <quick|thorough> <seed> <outpath> [nshards]
//   vec_utf8 replay <recorded.ndjson> <outpath>      re-executes recorded inputs (ids are kept)
//
// nshards <= 1: all lines go to <outpath>; otherwise line id goes to <outpath>.NN, NN = id % nshards.
//
// line forms (see TraceUtf8.tla):
//   {"id":n,"g":"<generator>","b":[bytes],"utf8":0|1,"name":V,"alias_name":V,"filter":V,"shared":V,"shared_nowild":V}
//   {"id":n,"g":"len","pre":[bytes],"rep":byte,"n":count,"post":[bytes], ...same verdict fields}
//   {"id":0,"g":"const","sub_id_min":..,"sub_id_max":..,"size_ok_65535":..,"size_ok_65536":..}
//   V = "valid" | "wildcard" | "invalid"
#include <boost/mqtt5/detail/topic_validation.hpp>
#include <boost/mqtt5/detail/utf8_mqtt.hpp>

#include <algorithm>
#include <cstdint>
#include <cstdio>
#include <cstdlib>
#include <cstring>
#include <string>
#include <string_view>
#include <vector>

namespace d = boost::mqtt5::detail;
using bytes = std::string;

static std::vector<FILE*> g_out;
static long g_id = 0;
static bool g_thorough = false;

static const char* vs(d::validation_result r) {
    switch (r) {
        case d::validation_result::valid: return "valid";
        case d::validation_result::has_wildcard_character: return "wildcard";
        default: return "invalid";
    }
}

static void put_bytes(std::string& o, std::string_view b) {
    o += '[';
    char tmp[8];
    for (size_t i = 0; i < b.size(); ++i) {
        int n = snprintf(tmp, sizeof tmp, i ? ",%u" : "%u", unsigned(uint8_t(b[i])));
        o.append(tmp, n);
    }
    o += ']';
}

static void put_verdicts(std::string& o, const bytes& s) {
    o += ",\"utf8\":";
    o += d::validate_mqtt_utf8(s) == d::validation_result::valid ? '1' : '0';
    o += ",\"name\":\""; o += vs(d::validate_topic_name(s));
    o += "\",\"alias_name\":\""; o += vs(d::validate_topic_alias_name(s));
    o += "\",\"filter\":\""; o += vs(d::validate_topic_filter(s));
    o += "\",\"shared\":\""; o += vs(d::validate_shared_topic_filter(s, true));
    o += "\",\"shared_nowild\":\""; o += vs(d::validate_shared_topic_filter(s, false));
    o += "\"}\n";
}

static void write_line(const std::string& o) {
    FILE* f = g_out[size_t(g_id) % g_out.size()];
    fwrite(o.data(), 1, o.size(), f);
    ++g_id;
}

static std::string g_line;

static void emit(const char* g, const bytes& s) {
    std::string& o = g_line;
    o.clear();
    o += "{\"id\":"; o += std::to_string(g_id);
    o += ",\"g\":\""; o += g; o += "\",\"b\":";
    put_bytes(o, s);
    put_verdicts(o, s);
    write_line(o);
}

static void emit_run(const bytes& pre, char rep, long n, const bytes& post) {
    bytes s = pre + bytes(size_t(n), rep) + post;
    std::string& o = g_line;
    o.clear();
    o += "{\"id\":"; o += std::to_string(g_id);
    o += ",\"g\":\"len\",\"pre\":"; put_bytes(o, pre);
    o += ",\"rep\":"; o += std::to_string(unsigned(uint8_t(rep)));
    o += ",\"n\":"; o += std::to_string(n);
    o += ",\"post\":"; put_bytes(o, post);
    put_verdicts(o, s);
    write_line(o);
}

// ------------------------------------------------------------------ generators

// every edge of every UTF-8 lead / continuation byte class, the controls, the topic characters
static const uint8_t ALPHABET[] = {
    0x00, 0x01, 0x1F, 0x20, 0x23, 0x24, 0x2B, 0x2F, 0x41 /* # $ + slash A */, 0x7E, 0x7F,
    0x80, 0x8F, 0x90, 0x9F, 0xA0, 0xBE, 0xBF,
    0xC0, 0xC1, 0xC2, 0xC3, 0xDF,
    0xE0, 0xE1, 0xEC, 0xED, 0xEE, 0xEF,
    0xF0, 0xF1, 0xF3, 0xF4, 0xF5, 0xF7,
    0xF8, 0xFB, 0xFC, 0xFD, 0xFE, 0xFF
};
static const size_t NALPHA = sizeof ALPHABET;

static void all_strings(const char* g, const std::vector<bytes>& symbols, int maxlen, const bytes& prefix = {}) {
    std::vector<size_t> idx;
    for (int len = 0; len <= maxlen; ++len) {
        idx.assign(size_t(len), 0);
        for (;;) {
            bytes s = prefix;
            for (size_t i : idx) s += symbols[i];
            emit(g, s);
            int p = len - 1;
            while (p >= 0 && ++idx[size_t(p)] == symbols.size()) idx[size_t(p--)] = 0;
            if (p < 0) break;
        }
    }
}

// generalised UTF-8 (RFC 2279 style) of value v in exactly len bytes (1..6); caller guarantees it fits.
// len longer than necessary gives the over-long forms, v > 0x10FFFF / len 5,6 the out-of-range forms.
static bytes encode(uint32_t v, int len) {
    if (len == 1) return bytes(1, char(v));
    static const uint8_t lead[] = { 0, 0, 0xC0, 0xE0, 0xF0, 0xF8, 0xFC };
    bytes s(size_t(len), '\0');
    for (int i = len - 1; i >= 1; --i) { s[size_t(i)] = char(0x80 | (v & 0x3F)); v >>= 6; }
    s[0] = char(lead[len] | v);
    return s;
}
static uint64_t capacity(int len) {   // first value that does NOT fit in len bytes
    static const uint64_t c[] = { 0, 0x80, 0x800, 0x10000, 0x200000, 0x4000000, 0x80000000ull };
    return c[len];
}
static int canonical_len(uint32_t v) { return v < 0x80 ? 1 : v < 0x800 ? 2 : v < 0x10000 ? 3 : 4; }

static void cp_contexts(const bytes& e) {
    static const bytes A = "a";
    emit("cp", e);
    emit("cp", A + e);
    emit("cp", e + A);
    emit("cp", "a/" + e);
    emit("cp", e + "/#");
    emit("cp", e + "/+");
    emit("cp", "+/" + e);
    emit("cp", "$share/g/" + e);
    emit("cp", "$share/" + e + "/t");
    emit("cp", e + e);
    for (size_t k = 1; k < e.size(); ++k) {          // truncations
        emit("cp", e.substr(0, k));
        emit("cp", e.substr(0, k) + A);
        emit("cp", A + e.substr(0, k));
    }
}

static void code_point_edges() {
    std::vector<uint32_t> edges = {
        0x0, 0x1, 0x1F, 0x20, 0x23, 0x2B, 0x2F, 0x7E, 0x7F, 0x80, 0x9F, 0xA0, 0xFE, 0xFF, 0x100, 0x1FE, 0x1FF,
        0x7FF, 0x800, 0xFFF, 0x1000, 0x4EFE, 0x4EFF, 0xCFFF, 0xD000, 0xD7FF, 0xD800, 0xDBFF, 0xDC00, 0xDFFF, 0xE000,
        0xFDCF, 0xFDD0, 0xFDEF, 0xFDF0, 0xFEFE, 0xFEFF, 0xFFFD, 0xFFFE, 0xFFFF, 0x10000, 0x100FE, 0x100FF,
        0x10FFFD, 0x10FFFE, 0x10FFFF, 0x110000, 0x13FFFF, 0x140000, 0x1FFFFF, 0x200000, 0x3FFFFFF, 0x4000000,
        0x7FFFFFFF
    };
    for (uint32_t plane = 1; plane <= 16; ++plane) {
        edges.push_back(plane * 0x10000 + 0xFFFD); edges.push_back(plane * 0x10000 + 0xFFFE);
        edges.push_back(plane * 0x10000 + 0xFFFF); edges.push_back(plane * 0x10000);
        edges.push_back(plane * 0x10000 + 0xFDD0);   // FDD0 is a noncharacter in plane 0 only
    }
    std::vector<uint32_t> vals;
    for (uint32_t e : edges)
        for (int dlt = -1; dlt <= 1; ++dlt) {
            if ((e == 0 && dlt < 0) || (e == 0x7FFFFFFF && dlt > 0)) continue;
            vals.push_back(uint32_t(int64_t(e) + dlt));
        }
    std::sort(vals.begin(), vals.end());
    vals.erase(std::unique(vals.begin(), vals.end()), vals.end());
    for (uint32_t v : vals)
        for (int len = 1; len <= 6; ++len)
            if (v < capacity(len)) cp_contexts(encode(v, len));
}

static void topic_structure() {
    const std::vector<bytes> ascii = { "#", "+", "/", "a" };
    const std::vector<bytes> wide  = { "#", "+", "/", "\xC3\xA9" /* U+00E9 */ };
    all_strings("topic", ascii, g_thorough ? 8 : 6);
    all_strings("topic", wide, g_thorough ? 7 : 5);
    const std::vector<bytes> misc = { "#", "+", "/", "$", " ", "a" };
    all_strings("topic", misc, g_thorough ? 6 : 4);
    // characters whose code point, cut down to 8 bits, is one of the topic specials ('/' 2F, '+' 2B, '#' 23, '$' 24):
    // a validator that keeps "the previous character" in a narrower type confuses them with the real thing
    const char* alias[] = { "\xC4\xAF" /* U+012F */, "\xC4\xAB" /* U+012B */, "\xC4\xA3" /* U+0123 */, "\xC4\xA4" /* U+0124 */,
                            "\xE2\x80\xAF" /* U+202F */, "\xF0\x9F\x98\xAF" /* U+1F62F */ };
    for (const char* a : alias) {
        const std::vector<bytes> al = { "#", "+", "/", a };
        all_strings("topic", al, g_thorough ? 6 : 5);
        all_strings("share", al, g_thorough ? 5 : 4, "$share/g/");
    }
}

static void share_forms() {
    const std::vector<bytes> sym = { "#", "+", "/", "g" };
    all_strings("share", sym, g_thorough ? 7 : 5, "$share/");
    const char* prefixes[] = {
        "$share", "$shar/", "$shar", "$Share/", "$SHARE/", "$share//", "share/", "/$share/", "$sharee/", "$ share/",
        " $share/", "$share/g", "$share/g/", "$share/g/t/", "$share/$share/", "$share/g/$share/", "$queue/",
        "$share/\xC3\xA9", "$share/\xC3\xA9/", "$share/\xC3\xBE/", "$share/ /", "$share/g g/"
    };
    const char* tails[] = {
        "", "g", "g/", "g/t", "g/#", "g/+", "g/t/#", "g/t#", "/t", "+/t", "#/t", "g+/t", "g#/t", "g/+/t", "g/t+",
        "t", "#", "+", "/", "//", "t/", "\xC3\xA9", "\xC3\xBE", "\x01", "t/\xC3\xA9/#"
    };
    for (const char* p : prefixes)
        for (const char* t : tails)
            emit("share", bytes(p) + t);
}

// strings around the 65535 byte bound, run-length coded; rep 'x' satisfies TraceUtf8!RunRepOK
static void length_edges() {
    const char X = 'x';
    const std::vector<std::pair<bytes, bytes>> frames = {
        { "", "" }, { "a/", "" }, { "", "/#" }, { "", "/+" }, { "+/", "" }, { "+/", "/#" }, { "", "#" }, { "", "+" },
        { "#", "" }, { "+", "" }, { "\xC3\xA9", "" }, { "", "\xC3\xA9" }, { "", "\xC3\xBE" }, { "", "\xC3" },
        { "\xC3", "" }, { "", bytes(1, '\0') }, { "", "\xF0\x90\x80\x80" }, { "\xEF\xBB\xBF", "" },
        { "$share/", "/t" }, { "$share/g/", "" }, { "$share/g/", "/#" }, { "$share/g/", "/+" }, { "$share/g/+/", "" },
        { "$share/", "" }, { "$share/", "/" }, { "$share/+", "/t" }, { "$share", "/t" }, { "$share/g/", "#" },
        { "$sh", "re/g/t" }, { "/", "/" }, { "", "/" }, { "", "\xC1\x81" }, { "", "\xC3\x41" }
    };
    for (const auto& [pre, post] : frames) {
        long fixed = long(pre.size() + post.size());
        for (long n : { 0L, 1L, 2L, 3L, 6L })                      // also feeds the RunLemma self test
            emit_run(pre, X, n, post);
        for (long total : { 65534L, 65535L, 65536L, 65537L })
            emit_run(pre, X, total - fixed, post);
        emit_run(pre, X, 70000, post);
        if (g_thorough) emit_run(pre, X, 200000, post);
    }
}

static uint64_t g_rng;
static uint32_t rnd() {            // xorshift64*
    g_rng ^= g_rng >> 12; g_rng ^= g_rng << 25; g_rng ^= g_rng >> 27;
    return uint32_t((g_rng * 0x2545F4914F6CDD1Dull) >> 32);
}

static void random_strings(long count) {
    std::vector<bytes> tok;
    for (size_t i = 0; i < NALPHA; ++i) tok.push_back(bytes(1, char(ALPHABET[i])));
    for (const char* t : { "#", "+", "/", "/", "a", "t", "$share/", "g/", "/#", "/+", "+/" }) tok.push_back(t);
    for (uint32_t v : { 0xE9u, 0xFEu, 0xFFu, 0x7FFu, 0x800u, 0x4EFFu, 0xD7FFu, 0xD800u, 0xE000u, 0xFDD0u, 0xFEFFu,
                        0xFFFDu, 0xFFFEu, 0x10000u, 0x1FFFEu, 0x10FFFFu, 0x110000u })
        tok.push_back(encode(v, canonical_len(v)));
    tok.push_back(encode(0x41, 2)); tok.push_back(encode(0x2F, 2)); tok.push_back(encode(0x23, 2));
    tok.push_back(encode(0x2B, 2)); tok.push_back(encode(0x7FF, 3)); tok.push_back(encode(0xFFFF, 4));
    for (long i = 0; i < count; ++i) {
        int n = 4 + int(rnd() % 7);
        bytes s;
        if (rnd() % 4 == 0) s = "$share/";
        for (int k = 0; k < n; ++k) s += tok[rnd() % tok.size()];
        emit("rand", s);
    }
}

// every string of one and of two bytes (all 256 / 65536): exhaustive over lead x second byte
static void all_short_byte_strings() {
    for (int a = 0; a < 256; ++a) emit("bytes1", bytes(1, char(a)));
    for (int a = 0; a < 256; ++a)
        for (int b = 0; b < 256; ++b) { bytes s(2, char(a)); s[1] = char(b); emit("bytes2", s); }
}

// thorough: three-byte strings with one position restricted to the boundary alphabet, and every
// 3/4-byte lead with every second byte and class-representative further bytes
static void wide_byte_strings() {
    bytes s(3, '\0');
    for (size_t i = 0; i < NALPHA; ++i)
        for (int b = 0; b < 256; ++b)
            for (int c = 0; c < 256; ++c) { s[0] = char(ALPHABET[i]); s[1] = char(b); s[2] = char(c); emit("bytes3", s); }
    for (int a = 0; a < 256; ++a)
        for (size_t i = 0; i < NALPHA; ++i)
            for (size_t j = 0; j < NALPHA; ++j) { s[0] = char(a); s[1] = char(ALPHABET[i]); s[2] = char(ALPHABET[j]); emit("bytes3", s); }
    static const uint8_t rest[] = { 0x7F, 0x80, 0xBF, 0xC0 };
    bytes q(4, '\0');
    for (int a = 0xE0; a < 0x100; ++a)
        for (int b = 0; b < 256; ++b)
            for (uint8_t c : rest)
                for (uint8_t e : rest) { q[0] = char(a); q[1] = char(b); q[2] = char(c); q[3] = char(e); emit("bytes4", q); }
}

// thorough: every code point 0..10FFFF in its (generalised) canonical form, surrogates included,
// every over-long 2/3/4-byte form and every 4-byte form F4 90.. (above 10FFFF)
static void all_code_points() {
    for (uint32_t v = 0; v <= 0x10FFFF; ++v) emit("allcp", encode(v, canonical_len(v)));
    for (uint32_t v = 0; v < 0x80; ++v) emit("over2", encode(v, 2));
    for (uint32_t v = 0; v < 0x800; ++v) emit("over3", encode(v, 3));
    for (uint32_t v = 0; v < 0x10000; ++v) emit("over4", encode(v, 4));
    for (uint32_t v = 0x110000; v < 0x140000; ++v) emit("above", encode(v, 4));
    for (uint32_t v = 0x140000; v < 0x200000; v += 0x3F) emit("above", encode(v, 4));
}

// ------------------------------------------------------------------ replay
// vec_utf8 replay <in.ndjson> <out.ndjson>: re-executes the inputs of recorded lines on the current tree
static size_t find_value(const std::string& l, const char* key) {   // position of the value of "key", npos if absent
    std::string k = std::string("\"") + key + "\"";
    size_t p = l.find(k);
    if (p == std::string::npos) return p;
    p += k.size();
    while (p < l.size() && (l[p] == ' ' || l[p] == ':')) ++p;
    return p;
}
static bool find_array(const std::string& l, const char* key, bytes& out) {
    size_t p = find_value(l, key);
    if (p == std::string::npos || p >= l.size() || l[p] != '[') return false;
    ++p;
    out.clear();
    while (p < l.size() && l[p] != ']') {
        while (p < l.size() && l[p] == ' ') ++p;
        if (p < l.size() && l[p] == ']') break;
        out += char(strtoul(l.c_str() + p, nullptr, 10));
        while (p < l.size() && l[p] != ',' && l[p] != ']') ++p;
        if (p < l.size() && l[p] == ',') ++p;
    }
    return true;
}
static bool find_num(const std::string& l, const char* key, long& out) {
    size_t p = find_value(l, key);
    if (p == std::string::npos) return false;
    out = strtol(l.c_str() + p, nullptr, 10);
    return true;
}
static int replay_file(const char* in, const char* outp) {
    FILE* fi = fopen(in, "r");
    FILE* fo = fopen(outp, "w");
    if (!fi || !fo) { perror("replay"); return 2; }
    g_out.push_back(fo);
    std::string l;
    int c;
    for (;;) {
        l.clear();
        while ((c = fgetc(fi)) != EOF && c != '\n') l += char(c);
        if (!l.empty() && l.find("\"const\"") == std::string::npos) {
            bytes b, pre, post; long rep = 0, n = 0, id = 0;
            if (find_num(l, "id", id)) g_id = id;
            if (find_array(l, "pre", pre) && find_array(l, "post", post) && find_num(l, "rep", rep) && find_num(l, "n", n))
                emit_run(pre, char(rep), n, post);
            else if (find_array(l, "b", b))
                emit("replay", b);
            else { fprintf(stderr, "replay: cannot parse: %s\n", l.c_str()); return 2; }
        }
        if (c == EOF) break;
    }
    fclose(fi);
    if (fclose(fo) != 0) return 2;
    return 0;
}

int main(int argc, char** argv) {
    if (argc == 4 && strcmp(argv[1], "replay") == 0) return replay_file(argv[2], argv[3]);
    if (argc < 4) {
        fprintf(stderr, "usage: vec_utf8 <quick|thorough> <seed> <outpath> [nshards]\n");
        return 2;
    }
    g_thorough = strcmp(argv[1], "thorough") == 0;
    g_rng = 0x9E3779B97F4A7C15ull ^ (uint64_t(strtoull(argv[2], nullptr, 10)) * 0xD1B54A32D192ED03ull);
    if (g_rng == 0) g_rng = 1;
    int nshards = argc > 4 ? atoi(argv[4]) : 1;
    if (nshards < 1) nshards = 1;
    for (int i = 0; i < nshards; ++i) {
        std::string p = argv[3];
        if (nshards > 1) { char suf[16]; snprintf(suf, sizeof suf, ".%02d", i); p += suf; }
        FILE* f = fopen(p.c_str(), "w");
        if (!f) { perror(p.c_str()); return 2; }
        static_cast<void>(setvbuf(f, nullptr, _IOFBF, 1 << 20));
        g_out.push_back(f);
    }

    {   // the library's constants
        std::string o = "{\"id\":0,\"g\":\"const\",\"sub_id_min\":" + std::to_string(d::min_subscription_identifier) +
            ",\"sub_id_max\":" + std::to_string(d::max_subscription_identifier) +
            ",\"size_ok_65535\":" + (d::is_valid_string_size(65535) ? "1" : "0") +
            ",\"size_ok_65536\":" + (d::is_valid_string_size(65536) ? "1" : "0") + "}\n";
        write_line(o);
    }

    std::vector<bytes> alpha;
    for (size_t i = 0; i < NALPHA; ++i) alpha.push_back(bytes(1, char(ALPHABET[i])));
    all_strings("alpha", alpha, g_thorough ? 4 : 3);
    all_short_byte_strings();
    code_point_edges();
    topic_structure();
    share_forms();
    length_edges();
    random_strings(g_thorough ? 300000 : 20000);
    if (g_thorough) { all_code_points(); wide_byte_strings(); }

    for (FILE* f : g_out)
        if (fclose(f) != 0) { perror("close"); return 2; }
    printf("vec_utf8: %ld vectors, %d shard(s)\n", g_id, nshards);
    return 0;
}
