// Simulated network: resolver, stream (StreamType for mqtt_client), connections,
// trace log. Everything the client asks of the network is parked in the world;
// the driver (or an "auto" policy) completes it. Single-threaded, deterministic.
#ifndef VERIF_SIMNET_HPP
#define VERIF_SIMNET_HPP

#include "vt.hpp"

namespace sim {

namespace asio = boost::asio;
using error_code = boost::system::error_code;
using tcp = asio::ip::tcp;

// ---------------------------------------------------------------- trace log
struct jev {
    std::string s;
    explicit jev(const char* e);
    jev& i(const char* k, long long v) { s += ",\""; s += k; s += "\":"; s += std::to_string(v); return *this; }
    jev& str(const char* k, const std::string& v) {
        s += ",\""; s += k; s += "\":\"";
        for (unsigned char c : v) {
            if (c == '"' || c == '\\') { s += '\\'; s += (char)c; }
            else if (c < 0x20 || c >= 0x7f) { char b[8]; snprintf(b, sizeof b, "\\u%04x", c); s += b; }
            else s += (char)c;
        }
        s += "\""; return *this;
    }
    jev& raw(const char* k, const std::string& json) { s += ",\""; s += k; s += "\":"; s += json; return *this; }
    jev& ilist(const char* k, const std::vector<int>& v) {
        std::string j = "["; for (size_t x = 0; x < v.size(); ++x) { if (x) j += ","; j += std::to_string(v[x]); } j += "]";
        return raw(k, j);
    }
    ~jev();
};

inline const char* ec_name(error_code ec) {
    namespace E = asio::error;
    if (!ec) return "ok";
    if (ec == E::operation_aborted) return "aborted";
    if (ec == E::connection_reset) return "reset";
    if (ec == E::eof) return "eof";
    if (ec == E::connection_refused) return "refused";
    if (ec == E::not_connected) return "not_connected";
    if (ec == E::timed_out) return "timed_out";
    if (ec == E::broken_pipe) return "broken_pipe";
    if (ec == E::connection_aborted) return "conn_aborted";
    if (ec == E::try_again) return "try_again";
    if (ec == E::no_recovery) return "no_recovery";
    if (ec == E::host_not_found) return "host_not_found";
    if (ec == E::access_denied) return "access_denied";
    if (ec == E::fault) return "fault";
    return nullptr;
}

inline error_code ec_from(const std::string& n) {
    namespace E = asio::error;
    if (n == "ok") return {};
    if (n == "aborted") return E::operation_aborted;
    if (n == "reset") return E::connection_reset;
    if (n == "eof") return E::eof;
    if (n == "refused") return E::connection_refused;
    if (n == "not_connected") return E::not_connected;
    if (n == "timed_out") return E::timed_out;
    if (n == "broken_pipe") return E::broken_pipe;
    if (n == "conn_aborted") return E::connection_aborted;
    if (n == "access_denied") return E::access_denied;  // not a reconnect trigger
    if (n == "fault") return E::fault;
    if (n == "host_not_found") return E::host_not_found;
    return E::connection_reset;
}

// ---------------------------------------------------------------- connections
struct conn {
    int id = 0;
    int host = 0;
    int stream_id = 0;
    std::string b2c;            // bytes the broker queued, not yet read by the client
    long long b2c_total = 0;    // bytes the broker has queued on this connection so far
    bool client_closed = false; // client closed / replaced the stream
    bool dead = false;          // transport fault: every further op fails with dead_ec
    error_code dead_ec;
    bool broker_closed = false; // broker closed: EOF after b2c drained
    bool ended_logged = false;
    int64_t t_open = 0;
};

struct stream_state;

struct pending_read {
    uint64_t opid; asio::any_completion_handler<void(error_code, size_t)> h;
    std::vector<asio::mutable_buffer> bufs; size_t cap; int64_t t_start;
};
struct pending_write {
    uint64_t opid; asio::any_completion_handler<void(error_code, size_t)> h;
    std::string data; size_t delivered = 0; int wid = 0;
};
struct pending_connect {
    uint64_t opid; asio::any_completion_handler<void(error_code)> h; tcp::endpoint ep; int host; int attempt;
};
struct pending_shutdown {
    uint64_t opid; asio::any_completion_handler<void(error_code)> h;
};
struct pending_resolve {
    uint64_t opid; asio::any_completion_handler<void(error_code, tcp::resolver::results_type)> h;
    std::string host, port; asio::any_io_executor ex; int hidx;
};

struct stream_state {
    int sid = 0;
    int attempt = 0;            // last connection attempt made on this stream
    asio::any_io_executor ex;
    bool open = false;
    bool connected = false;
    bool destroyed = false;
    int conn_id = -1;
    tcp::endpoint rep;
    std::optional<pending_read> rd;
    std::optional<pending_write> wr;
    std::optional<pending_connect> cn;
    std::optional<pending_shutdown> sh;
};

enum class disp { accept, refuse, blackhole };

struct world {
    // policies
    bool auto_resolve = true, auto_connect = true, auto_write = true,
         auto_deliver = true, auto_shutdown = true;
    size_t chunk = 0;                 // max bytes per auto delivery (0 = all)
    std::vector<disp> host_disp;      // per host; missing = accept
    std::vector<int> host_resolve;    // per host: 1 ok, 0 fail, 2 blackhole
    int nep_per_host = 1;
    // crash points: the write with this id fails after `wfault_deliver` of its bytes reached the broker
    // (-1 = all); the connection is reset once `rfault_after` bytes in total have been read by the client
    int wfault_at = 0; long wfault_deliver = 0; std::string wfault_ec = "reset";
    long rfault_after = 0; long rbytes_total = 0;

    // state
    std::vector<std::shared_ptr<stream_state>> streams;
    std::map<int, conn> conns;
    std::map<uint64_t, pending_resolve> resolves;
    uint64_t next_op = 1;
    int next_sid = 1, next_cid = 1, next_wid = 1, next_attempt = 1;
    long long seq = 0;
    FILE* out = nullptr;
    bool tracing = true;
    long long events = 0;

    // decodes the packets of a client write into a JSON list of type names (set by broker.hpp)
    std::function<std::string(const std::string&, int, int, bool)> summarize; // (bytes, conn, write id, emit c_pkt events)
    // broker callbacks
    std::function<void(int /*conn*/, const std::string&)> on_client_bytes;
    std::function<void(int /*conn*/, int /*host*/)> on_conn_open;
    std::function<void(int /*conn*/, const char* /*by*/)> on_conn_end;

    static world& get() { static world w; return w; }

    void reset_scenario() {
        // streams of a previous scenario must already be gone
        streams.clear(); conns.clear(); resolves.clear();
        next_op = 1; next_sid = 1; next_cid = 1; next_wid = 1; next_attempt = 1;
        auto_resolve = auto_connect = auto_write = auto_deliver = auto_shutdown = true;
        chunk = 0; host_disp.clear(); host_resolve.clear(); nep_per_host = 1;
        wfault_at = 0; wfault_deliver = 0; wfault_ec = "reset"; rfault_after = 0; rbytes_total = 0;
        seq = 0;
    }

    // seq counts the events of the current scenario (an ordinary scenario has a few thousand, the largest about 20 000).
    // A client that keeps producing events without end (e.g. retries without a pause inside one handler) is stopped
    // here: the run ends with exit status 4, which tools/vlib.py treats like a crash of the client in this scenario.
    void emit(const std::string& line) {
        ++events;
        if (out && tracing) { fputs(line.c_str(), out); fputc('\n', out); }
        if (seq > 150000) {
            if (out) { fputs("{\"e\":\"hang\",\"n\":150002,\"t\":0,\"handlers\":-1}\n", out); fflush(out); }
            fprintf(stderr, "simrun: scenario produced more than 150000 events (client does not come to rest)\n");
            _exit(4);
        }
    }

    disp disposition(int host) const {
        return host >= 0 && host < (int) host_disp.size() ? host_disp[host] : disp::accept;
    }

    static int host_of(const tcp::endpoint& ep) {
        // sim resolver maps host i to 10.0.(i).k:port ; host index lives in the 3rd octet
        if (!ep.address().is_v4()) return -1;
        auto b = ep.address().to_v4().to_bytes();
        return b[0] == 10 ? int(b[2]) : -1;
    }

    stream_state* find_stream(int sid) {
        for (auto& s : streams) if (s->sid == sid) return s.get();
        return nullptr;
    }
    stream_state* stream_of_conn(int cid) {
        for (auto& s : streams) if (s->conn_id == cid && !s->destroyed) return s.get();
        return nullptr;
    }
    conn* find_conn(int cid) { auto it = conns.find(cid); return it == conns.end() ? nullptr : &it->second; }

    // the connection the client currently uses, or the newest alive
    int current_conn() {
        int best = -1;
        for (auto& [id, c] : conns) if (!c.client_closed && !c.dead) best = id;
        return best;
    }

    size_t pending_ops() const {
        size_t n = resolves.size();
        for (auto& s : streams) n += (s->rd ? 1 : 0) + (s->wr ? 1 : 0) + (s->cn ? 1 : 0) + (s->sh ? 1 : 0);
        return n;
    }

    template <class H, class... A>
    static void post_to(const asio::any_io_executor& ex, H&& h, A&&... a) {
        asio::post(ex, asio::prepend(std::move(h), std::forward<A>(a)...));
    }

    void conn_end(conn& c, const char* by) {
        if (c.ended_logged) return;
        c.ended_logged = true;
        jev("conn_end").i("c", c.id).str("by", by);
        if (on_conn_end) on_conn_end(c.id, by);
    }

    // ---- reads
    void try_deliver(stream_state& s, size_t max_bytes = 0) {
        if (!s.rd || s.conn_id < 0) return;
        auto* c = find_conn(s.conn_id); if (!c) return;
        if (c->dead) { finish_read(s, c->dead_ec, 0); return; }
        if (c->b2c.empty()) {
            if (c->broker_closed) finish_read(s, asio::error::eof, 0);
            return;
        }
        size_t n = std::min(s.rd->cap, c->b2c.size());
        if (max_bytes) n = std::min(n, max_bytes);
        else if (chunk) n = std::min(n, chunk);
        bool rf = false;
        if (rfault_after > 0 && rbytes_total + (long) n >= rfault_after) { n = (size_t) std::max<long>(1, rfault_after - rbytes_total); rf = true; }
        rbytes_total += (long) n;
        size_t off = 0;
        for (auto& b : s.rd->bufs) {
            size_t k = std::min(b.size(), n - off);
            std::memcpy(b.data(), c->b2c.data() + off, k); off += k;
            if (off == n) break;
        }
        c->b2c.erase(0, n);
        finish_read(s, {}, n);
        if (rf) { rfault_after = 0; jev("fault").i("c", c->id).str("ec", "reset").str("on", "rbytes"); fault(c->id, asio::error::connection_reset, true, true); }
    }
    void finish_read(stream_state& s, error_code ec, size_t n) {
        auto r = std::move(*s.rd); s.rd.reset();
        const char* en = ec_name(ec);
        jev("c_read_end").i("c", s.conn_id).i("nb", (long long) n).str("ec", en ? en : "other").i("t0", r.t_start / 1000000);
        post_to(s.ex, std::move(r.h), ec, n);
    }

    // ---- writes
    // deliver `nbytes` more bytes of the pending write to the broker (SIZE_MAX = rest)
    void deliver_write(stream_state& s, size_t nbytes) {
        if (!s.wr) return;
        auto* c = find_conn(s.conn_id);
        size_t rest = s.wr->data.size() - s.wr->delivered;
        size_t n = std::min(rest, nbytes);
        if (n == 0) return;
        std::string part = s.wr->data.substr(s.wr->delivered, n);
        s.wr->delivered += n;
        if (c && !c->dead && !c->broker_closed && on_client_bytes) on_client_bytes(c->id, part);
    }
    void finish_write(stream_state& s, error_code ec) {
        if (!s.wr) return;
        auto w = std::move(*s.wr); s.wr.reset();
        size_t n = ec ? 0 : w.delivered;
        const char* en = ec_name(ec);
        jev("c_write_end").i("c", s.conn_id).i("w", w.wid).i("nb", (long long) w.delivered).str("ec", en ? en : "other");
        post_to(s.ex, std::move(w.h), ec, n);
    }

    // ---- broker -> client
    void broker_send(int cid, const std::string& bytes) {
        auto* c = find_conn(cid); if (!c || c->dead || c->client_closed) return;
        c->b2c += bytes; c->b2c_total += (long long) bytes.size();
        if (auto_deliver) if (auto* s = stream_of_conn(cid)) try_deliver(*s);
    }
    void broker_close(int cid) {
        auto* c = find_conn(cid); if (!c) return;
        c->broker_closed = true;
        conn_end(*c, "broker");
        if (auto* s = stream_of_conn(cid)) {
            if (auto_deliver) try_deliver(*s);
            if (s->wr && auto_write) finish_write(*s, asio::error::broken_pipe);
        }
    }

    // ---- transport faults
    void fault(int cid, error_code ec, bool hit_read, bool hit_write) {
        auto* c = find_conn(cid); if (!c) return;
        c->dead = true; c->dead_ec = ec; c->b2c.clear();
        conn_end(*c, "fault");
        if (auto* s = stream_of_conn(cid)) {
            if (hit_read && s->rd) finish_read(*s, ec, 0);
            if (hit_write && s->wr) finish_write(*s, ec);
        }
    }

    // ---- connect
    void finish_connect(stream_state& s, error_code ec) {
        if (!s.cn) return;
        auto p = std::move(*s.cn); s.cn.reset();
        const char* en = ec_name(ec);
        if (!ec) {
            s.connected = true; s.rep = p.ep;
            conn c; c.id = next_cid++; c.host = p.host; c.stream_id = s.sid; c.t_open = vt::g_now_ns;
            s.conn_id = c.id; conns[c.id] = c;
            jev("attempt_end").i("a", p.attempt).i("c", c.id).i("host", p.host).str("res", "ok");
            if (on_conn_open) on_conn_open(c.id, p.host);
        } else {
            jev("attempt_end").i("a", p.attempt).i("c", 0).i("host", p.host).str("res", en ? en : "other");
        }
        post_to(s.ex, std::move(p.h), ec);
    }

    // ---- resolve
    void finish_resolve(uint64_t opid, error_code ec) {
        auto it = resolves.find(opid); if (it == resolves.end()) return;
        auto p = std::move(it->second); resolves.erase(it);
        tcp::resolver::results_type res;
        if (!ec) {
            std::vector<tcp::endpoint> eps;
            int port = std::atoi(p.port.c_str());
            for (int k = 0; k < nep_per_host; ++k)
                eps.emplace_back(asio::ip::address_v4(asio::ip::address_v4::bytes_type { 10, 0, (unsigned char) p.hidx, (unsigned char) (k + 1) }), (unsigned short) port);
            res = tcp::resolver::results_type::create(eps.begin(), eps.end(), p.host, p.port);
        }
        const char* en = ec_name(ec);
        jev("resolve_end").i("host", p.hidx).str("ec", en ? en : "other");
        post_to(p.ex, std::move(p.h), ec, std::move(res));
    }
};

inline world& W() { return world::get(); }

inline jev::jev(const char* e) {
    auto& w = W();
    s = "{\"e\":\""; s += e; s += "\",\"n\":"; s += std::to_string(w.tracing ? ++w.seq : w.seq);
    s += ",\"t\":"; s += std::to_string(vt::now_ms());
}
inline jev::~jev() { s += "}"; W().emit(s); }

// ---------------------------------------------------------------- resolver
// "b<i>" resolves to 10.0.<i>.1 (.. .k for several endpoints); anything else: host_not_found
class resolver {
    asio::any_io_executor _ex;
    std::vector<uint64_t> _mine;
public:
    using executor_type = asio::any_io_executor;
    using results_type = tcp::resolver::results_type;
    using endpoint_type = tcp::endpoint;

    template <class Ex> explicit resolver(Ex ex) : _ex(std::move(ex)) {}
    resolver(resolver&&) = default;
    ~resolver() { cancel(); }
    executor_type get_executor() noexcept { return _ex; }

    void cancel() {
        auto& w = W();
        for (auto id : _mine) w.finish_resolve(id, asio::error::operation_aborted);
        _mine.clear();
    }

    template <class Token>
    auto async_resolve(std::string_view host, std::string_view port, Token&& token) {
        return asio::async_initiate<Token, void(error_code, results_type)>(
            [this](auto handler, std::string host, std::string port) {
                auto& w = W();
                auto opid = w.next_op++;
                int hidx = -1;
                if (host.size() >= 2 && host[0] == 'b') hidx = std::atoi(host.c_str() + 1);
                auto slot = asio::get_associated_cancellation_slot(handler);
                jev("resolve").i("host", hidx);
                w.resolves.emplace(opid, pending_resolve { opid, std::move(handler), host, port, _ex, hidx });
                _mine.push_back(opid);
                if (slot.is_connected())
                    slot.assign([opid](asio::cancellation_type_t) { W().finish_resolve(opid, asio::error::operation_aborted); });
                int mode = hidx < 0 ? 0 : (hidx < (int) w.host_resolve.size() ? w.host_resolve[hidx] : 1);
                if (w.auto_resolve) {
                    if (mode == 1) w.finish_resolve(opid, {});
                    else if (mode == 0) w.finish_resolve(opid, asio::error::host_not_found);
                    // mode 2: blackhole, stays pending until the 5 s timer cancels it
                }
            }, token, std::string(host), std::string(port));
    }
};

// tcp look-alike whose resolver is ours (token interposition: `tcp` -> `verif_tcp`)
struct verif_tcp {
    using endpoint = tcp::endpoint;
    using resolver = sim::resolver;
    using no_delay = tcp::no_delay;
    using socket = tcp::socket;
    using acceptor = tcp::acceptor;
    tcp _p;
    verif_tcp(const tcp& p) : _p(p) {}
    static verif_tcp v4() { return verif_tcp(tcp::v4()); }
    static verif_tcp v6() { return verif_tcp(tcp::v6()); }
    operator tcp() const { return _p; }
};

// ---------------------------------------------------------------- stream
template <bool TcpLike>
class basic_stream {
    asio::any_io_executor _ex;
    std::shared_ptr<stream_state> _st;

    void abort_pending() {
        auto& w = W(); auto& s = *_st;
        if (s.rd) w.finish_read(s, asio::error::operation_aborted, 0);
        if (s.wr) w.finish_write(s, asio::error::operation_aborted);
        if (s.cn) w.finish_connect(s, asio::error::operation_aborted);
        if (s.sh) { auto p = std::move(*s.sh); s.sh.reset(); world::post_to(s.ex, std::move(p.h), error_code(asio::error::operation_aborted)); }
    }
public:
    using executor_type = asio::any_io_executor;
    using protocol_type = tcp;
    using endpoint_type = tcp::endpoint;
    static constexpr bool tcp_like = TcpLike;

    explicit basic_stream(executor_type ex) : _ex(std::move(ex)), _st(std::make_shared<stream_state>()) {
        auto& w = W();
        _st->sid = w.next_sid++; _st->ex = _ex;
        w.streams.push_back(_st);
    }
    basic_stream(const basic_stream&) = delete;
    ~basic_stream() {
        error_code ec; close(ec);
        _st->destroyed = true;
        auto& v = W().streams;
        v.erase(std::remove(v.begin(), v.end(), _st), v.end());
    }

    executor_type get_executor() const noexcept { return _ex; }
    stream_state& state() { return *_st; }

    template <class P> void open(const P&, error_code& ec) { ec = {}; _st->open = true; }
    bool is_open() const { return _st->open; }

    void close(error_code& ec) {
        ec = {};
        auto& w = W(); auto& s = *_st;
        bool was = s.open;
        s.open = false;
        // (the end of the connection is logged BEFORE the pending operations are aborted, so that an
        //  observer can tell a read aborted by close() from a read cancelled by the read timer)
        if (s.conn_id >= 0) if (auto* c = w.find_conn(s.conn_id)) {
            if (!c->client_closed) { c->client_closed = true; w.conn_end(*c, "client"); }
        }
        abort_pending();
        if (was || s.connected) jev("stream_close").i("s", s.sid).i("c", s.conn_id < 0 ? 0 : s.conn_id).i("a", s.attempt);
        s.connected = false;
        s.rep = {};
    }
    void cancel(error_code& ec) { ec = {}; abort_pending(); }

    // tcp-like only: socket shutdown -> peer sees EOF; later reads fail
    void shutdown(asio::socket_base::shutdown_type, error_code& ec) {
        ec = {};
        auto& w = W(); auto& s = *_st;
        jev("stream_shutdown").i("s", s.sid).i("c", s.conn_id < 0 ? 0 : s.conn_id).i("a", s.attempt);
        if (s.conn_id >= 0) if (auto* c = w.find_conn(s.conn_id)) {
            if (!c->client_closed) { c->client_closed = true; w.conn_end(*c, "client"); }
            c->dead = true; c->dead_ec = asio::error::eof; // a read after shutdown(both) returns EOF
            if (s.rd) w.finish_read(s, asio::error::eof, 0);
            if (s.wr) w.finish_write(s, asio::error::broken_pipe);
        }
    }

    endpoint_type remote_endpoint(error_code& ec) const {
        ec = _st->connected ? error_code {} : error_code(asio::error::not_connected);
        return _st->rep;
    }
    template <class O> void set_option(const O&, error_code& ec) { ec = {}; }

    template <class Token>
    auto async_connect(const endpoint_type& ep, Token&& token) {
        return asio::async_initiate<Token, void(error_code)>(
            [this](auto handler, endpoint_type ep) {
                auto& w = W(); auto& s = *_st;
                s.open = true;
                auto opid = w.next_op++;
                int host = world::host_of(ep);
                int attempt = w.next_attempt++;
                auto slot = asio::get_associated_cancellation_slot(handler);
                jev("attempt").i("a", attempt).i("s", s.sid).i("host", host).i("epk", ep.address().is_v4() ? ep.address().to_v4().to_bytes()[3] : 0).i("port", ep.port());
                s.attempt = attempt;
                s.cn = pending_connect { opid, std::move(handler), ep, host, attempt };
                if (slot.is_connected()) {
                    std::weak_ptr<stream_state> ws = _st;
                    slot.assign([ws, opid](asio::cancellation_type_t) {
                        if (auto sp = ws.lock()) if (sp->cn && sp->cn->opid == opid) W().finish_connect(*sp, asio::error::operation_aborted);
                    });
                }
                if (w.auto_connect) {
                    auto d = w.disposition(host);
                    if (d == disp::accept) w.finish_connect(s, {});
                    else if (d == disp::refuse) w.finish_connect(s, asio::error::connection_refused);
                }
            }, token, ep);
    }

    template <class B, class Token>
    auto async_write_some(const B& b, Token&& token) {
        return asio::async_initiate<Token, void(error_code, size_t)>(
            [this](auto handler, const B& b) {
                auto& w = W(); auto& s = *_st;
                std::string data;
                for (auto it = asio::buffer_sequence_begin(b); it != asio::buffer_sequence_end(b); ++it)
                    data.append((const char*) it->data(), it->size());
                auto opid = w.next_op++;
                int wid = w.next_wid++;
                auto slot = asio::get_associated_cancellation_slot(handler);
                { std::string pkl = w.summarize ? w.summarize(data, s.conn_id, wid, false) : std::string("[]");
                  jev("c_write").i("c", s.conn_id).i("w", wid).i("nb", (long long) data.size()).raw("pk", pkl); }
                if (w.summarize) w.summarize(data, s.conn_id, wid, true);   // one c_pkt event per packet, after the c_write event
                s.wr = pending_write { opid, std::move(handler), std::move(data), 0, wid };
                if (slot.is_connected()) {
                    std::weak_ptr<stream_state> ws = _st;
                    slot.assign([ws, opid](asio::cancellation_type_t) {
                        if (auto sp = ws.lock()) if (sp->wr && sp->wr->opid == opid) W().finish_write(*sp, asio::error::operation_aborted);
                    });
                }
                auto* c = w.find_conn(s.conn_id);
                if (!s.connected || !c) { w.finish_write(s, asio::error::not_connected); return; }
                if (c->dead) { w.finish_write(s, c->dead_ec == asio::error::eof ? error_code(asio::error::broken_pipe) : c->dead_ec); return; }
                if (c->broker_closed) { if (w.auto_write) w.finish_write(s, asio::error::broken_pipe); return; }
                if (w.wfault_at == wid) {
                    w.wfault_at = 0;
                    jev("fault").i("c", c->id).str("ec", w.wfault_ec).str("on", "write");
                    w.deliver_write(s, w.wfault_deliver < 0 ? SIZE_MAX : (size_t) w.wfault_deliver);
                    auto ec = ec_from(w.wfault_ec);
                    c->dead = true; c->dead_ec = ec; c->b2c.clear();
                    w.conn_end(*c, "fault");
                    w.finish_write(s, ec);
                    if (s.rd) w.finish_read(s, ec, 0);
                    return;
                }
                if (w.auto_write) {
                    // completion is queued BEFORE the broker reacts, as on a real socket
                    auto h = std::move(*s.wr); s.wr.reset();
                    size_t n = h.data.size();
                    jev("c_write_end").i("c", s.conn_id).i("w", h.wid).i("nb", (long long) n).str("ec", "ok");
                    world::post_to(s.ex, std::move(h.h), error_code {}, n);
                    if (w.on_client_bytes) w.on_client_bytes(c->id, h.data);
                }
            }, token, b);
    }

    template <class B, class Token>
    auto async_read_some(const B& b, Token&& token) {
        return asio::async_initiate<Token, void(error_code, size_t)>(
            [this](auto handler, const B& b) {
                auto& w = W(); auto& s = *_st;
                std::vector<asio::mutable_buffer> bufs; size_t cap = 0;
                for (auto it = asio::buffer_sequence_begin(b); it != asio::buffer_sequence_end(b); ++it) {
                    bufs.push_back(*it); cap += it->size();
                }
                if (cap == 0) { world::post_to(s.ex, std::move(handler), error_code {}, size_t(0)); return; }
                auto opid = w.next_op++;
                auto slot = asio::get_associated_cancellation_slot(handler);
                s.rd = pending_read { opid, std::move(handler), std::move(bufs), cap, vt::g_now_ns };
                if (slot.is_connected()) {
                    std::weak_ptr<stream_state> ws = _st;
                    slot.assign([ws, opid](asio::cancellation_type_t) {
                        if (auto sp = ws.lock()) if (sp->rd && sp->rd->opid == opid) W().finish_read(*sp, asio::error::operation_aborted, 0);
                    });
                }
                auto* c = w.find_conn(s.conn_id);
                if (!s.connected || !c) { w.finish_read(s, asio::error::not_connected, 0); return; }
                if (c->dead) { w.finish_read(s, c->dead_ec, 0); return; }
                if (w.auto_deliver) w.try_deliver(s);
            }, token, b);
    }

    template <class H>
    void do_async_shutdown(H&& h) {
        auto& w = W(); auto& s = *_st;
        jev("stream_tls_shutdown").i("s", s.sid).i("c", s.conn_id < 0 ? 0 : s.conn_id).i("a", s.attempt);
        if (w.auto_shutdown) { std::move(h)(error_code {}); return; }
        auto opid = w.next_op++;
        auto slot = asio::get_associated_cancellation_slot(h);
        s.sh = pending_shutdown { opid, asio::any_completion_handler<void(error_code)>(std::move(h)) };
        if (slot.is_connected()) {
            std::weak_ptr<stream_state> ws = _st;
            slot.assign([ws, opid](asio::cancellation_type_t) {
                if (auto sp = ws.lock()) if (sp->sh && sp->sh->opid == opid) {
                    auto p = std::move(*sp->sh); sp->sh.reset();
                    world::post_to(sp->ex, std::move(p.h), error_code(asio::error::operation_aborted));
                }
            });
        }
    }
};

using stream = basic_stream<false>;      // generic (TLS/WebSocket-shaped) shutdown path
using tcp_stream = basic_stream<true>;   // basic_stream_socket-shaped shutdown path

template <bool T, class H>
void async_shutdown(basic_stream<T>& s, H&& h) { s.do_async_shutdown(std::forward<H>(h)); }

} // namespace sim

#endif
