// Every external header the library includes, included BEFORE the token
// interposition macros of vt_interpose.hpp are defined, so that include
// guards keep those macros from touching Boost / libstdc++ themselves.
#ifndef VERIF_PREINC_HPP
#define VERIF_PREINC_HPP

#define BOOST_ASIO_DISABLE_EPOLL 1
#define BOOST_ASIO_NO_DEPRECATED 1

#include <algorithm>
#include <array>
#include <chrono>
#include <cstddef>
#include <cstdint>
#include <cstdio>
#include <cstring>
#include <ctime>
#include <deque>
#include <functional>
#include <iostream>
#include <limits>
#include <map>
#include <memory>
#include <optional>
#include <ostream>
#include <set>
#include <sstream>
#include <string>
#include <string_view>
#include <tuple>
#include <type_traits>
#include <utility>
#include <variant>
#include <vector>

#include <boost/asio.hpp>
#include <boost/asio/any_completion_handler.hpp>
#include <boost/asio/any_io_executor.hpp>
#include <boost/asio/append.hpp>
#include <boost/asio/associated_allocator.hpp>
#include <boost/asio/associated_cancellation_slot.hpp>
#include <boost/asio/associated_executor.hpp>
#include <boost/asio/associated_immediate_executor.hpp>
#include <boost/asio/async_result.hpp>
#include <boost/asio/basic_stream_socket.hpp>
#include <boost/asio/bind_allocator.hpp>
#include <boost/asio/bind_cancellation_slot.hpp>
#include <boost/asio/bind_executor.hpp>
#include <boost/asio/buffer.hpp>
#include <boost/asio/cancellation_state.hpp>
#include <boost/asio/cancellation_type.hpp>
#include <boost/asio/completion_condition.hpp>
#include <boost/asio/consign.hpp>
#include <boost/asio/deferred.hpp>
#include <boost/asio/detached.hpp>
#include <boost/asio/dispatch.hpp>
#include <boost/asio/error.hpp>
#include <boost/asio/execution.hpp>
#include <boost/asio/experimental/basic_channel.hpp>
#include <boost/asio/experimental/parallel_group.hpp>
#include <boost/asio/ip/tcp.hpp>
#include <boost/asio/post.hpp>
#include <boost/asio/prefer.hpp>
#include <boost/asio/prepend.hpp>
#include <boost/asio/read.hpp>
#include <boost/asio/recycling_allocator.hpp>
#include <boost/asio/require.hpp>
#include <boost/asio/steady_timer.hpp>
#include <boost/asio/write.hpp>
#include <boost/assert.hpp>
#include <boost/container/small_vector.hpp>
#include <boost/core/identity.hpp>
#include <boost/endian/conversion.hpp>
#include <boost/fusion/adapted/std_tuple.hpp>
#include <boost/fusion/container/deque.hpp>
#include <boost/optional/optional.hpp>
#include <boost/random/linear_congruential.hpp>
#include <boost/random/uniform_smallint.hpp>
#include <boost/range/iterator_range_core.hpp>
#include <boost/smart_ptr/allocate_unique.hpp>
#include <boost/spirit/home/x3.hpp>
#include <boost/spirit/home/x3/binary/binary.hpp>
#include <boost/system/error_code.hpp>
#include <boost/type_traits/detected_or.hpp>
#include <boost/type_traits/is_detected.hpp>
#include <boost/type_traits/is_detected_convertible.hpp>
#include <boost/type_traits/is_detected_exact.hpp>
#include <boost/type_traits/remove_cv_ref.hpp>

#endif
