// Virtual time: clock, timer with the interface subset of asio::steady_timer
// the library uses. Waits are parked in a registry; the driver fires them.
// A parked wait holds NO outstanding work on the io_context: the driver runs
// ready handlers with poll() and decides itself when a deadline fires.
#ifndef VERIF_VT_HPP
#define VERIF_VT_HPP

#include "preinc.hpp"

namespace vt {

namespace asio = boost::asio;
using error_code = boost::system::error_code;

inline int64_t g_now_ns = 0;
inline constexpr int64_t NEVER = INT64_MAX;

inline int64_t now_ms() { return g_now_ns / 1000000; }

struct vclock {
    using duration = std::chrono::nanoseconds;
    using rep = duration::rep;
    using period = duration::period;
    using time_point = std::chrono::time_point<vclock, duration>;
    static constexpr bool is_steady = true;
    static time_point now() noexcept { return time_point(duration(g_now_ns)); }
};

struct wait_entry {
    uint64_t id;
    const void* timer;      // identity of the timer impl
    int64_t expiry;
    int64_t armed_at;
    asio::any_completion_handler<void(error_code)> h;
    asio::any_io_executor ex;
};

struct timer_registry {
    std::map<uint64_t, wait_entry> waits; // by id (creation order)
    uint64_t next_id = 1;
    uint64_t fired = 0, cancelled = 0;

    static timer_registry& get() { static timer_registry r; return r; }

    void complete(wait_entry e, error_code ec) {
        auto ex = e.ex;
        asio::post(ex, asio::prepend(std::move(e.h), ec));
    }

    size_t cancel_timer(const void* timer) {
        size_t n = 0;
        for (auto it = waits.begin(); it != waits.end();) {
            if (it->second.timer == timer) {
                auto e = std::move(it->second);
                it = waits.erase(it);
                ++n; ++cancelled;
                complete(std::move(e), asio::error::operation_aborted);
            } else ++it;
        }
        return n;
    }

    void cancel_wait(uint64_t id) {
        auto it = waits.find(id);
        if (it == waits.end()) return;
        auto e = std::move(it->second);
        waits.erase(it);
        ++cancelled;
        complete(std::move(e), asio::error::operation_aborted);
    }

    // earliest finite deadline, or NEVER
    int64_t next_deadline() const {
        int64_t best = NEVER;
        for (auto& [id, e] : waits) if (e.expiry < best) best = e.expiry;
        return best;
    }

    size_t live() const { return waits.size(); }

    // Fires the earliest wait (lowest id among equal deadlines). Advances the
    // clock to its deadline if that lies in the future. Returns false if no
    // finite deadline is armed. out_* describe the fired wait.
    bool fire_next(int64_t* out_due = nullptr, int64_t* out_armed = nullptr) {
        const wait_entry* best = nullptr;
        for (auto& [id, e] : waits)
            if (e.expiry != NEVER && (!best || e.expiry < best->expiry)) best = &e;
        if (!best) return false;
        if (best->expiry > g_now_ns) g_now_ns = best->expiry;
        auto id = best->id;
        auto e = std::move(waits[id]);
        waits.erase(id);
        if (out_due) *out_due = e.expiry;
        if (out_armed) *out_armed = e.armed_at;
        ++fired;
        complete(std::move(e), error_code {});
        return true;
    }

    // destroying a parked handler may destroy a timer it owns, whose destructor walks `waits`: empty it first
    void reset() { auto gone = std::move(waits); waits.clear(); gone.clear(); next_id = 1; fired = cancelled = 0; }
};

class vtimer {
    struct impl { int64_t expiry = 0; };
    asio::any_io_executor _ex;
    std::unique_ptr<impl> _impl;
public:
    using executor_type = asio::any_io_executor;
    using clock_type = vclock;
    using duration = vclock::duration;
    using time_point = vclock::time_point;

    template <class Ex,
        std::enable_if_t<!std::is_convertible_v<Ex&, asio::execution_context&>, bool> = true>
    explicit vtimer(const Ex& ex) : _ex(ex), _impl(new impl) {}

    template <class Ctx,
        std::enable_if_t<std::is_convertible_v<Ctx&, asio::execution_context&>, bool> = true>
    explicit vtimer(Ctx& ctx) : _ex(ctx.get_executor()), _impl(new impl) {}

    vtimer(vtimer&&) = default;
    vtimer& operator=(vtimer&&) = default;
    ~vtimer() { if (_impl) cancel(); }

    executor_type get_executor() const noexcept { return _ex; }

    size_t cancel() { return timer_registry::get().cancel_timer(_impl.get()); }

    template <class Rep, class Period>
    size_t expires_after(const std::chrono::duration<Rep, Period>& d) {
        size_t n = cancel();
        using D = std::chrono::duration<Rep, Period>;
        if (d == (D::max)()) { _impl->expiry = NEVER; return n; }
        // saturating conversion to ns
        long double dn = std::chrono::duration<long double, std::nano>(d).count();
        if (dn >= (long double)(NEVER - g_now_ns)) _impl->expiry = NEVER;
        else if (dn <= 0) _impl->expiry = g_now_ns;
        else _impl->expiry = g_now_ns + (int64_t) dn;
        return n;
    }

    time_point expiry() const { return time_point(duration(_impl->expiry)); }

    template <class Token>
    auto async_wait(Token&& token) {
        return asio::async_initiate<Token, void(error_code)>(
            [this](auto handler) {
                auto& R = timer_registry::get();
                auto id = R.next_id++;
                auto slot = asio::get_associated_cancellation_slot(handler);
                wait_entry e { id, _impl.get(), _impl->expiry, g_now_ns,
                               std::move(handler), _ex };
                R.waits.emplace(id, std::move(e));
                if (slot.is_connected())
                    slot.assign([id](asio::cancellation_type_t) {
                        timer_registry::get().cancel_wait(id);
                    });
            }, token);
    }
};

} // namespace vt

#endif
