// Token interposition: compile the UNMODIFIED library against the virtual timer,
// virtual system clock, simulated resolver and a fixed std::time(). No source
// change in /repo is needed for time or network.
#ifndef VERIF_INTERPOSE_HPP
#define VERIF_INTERPOSE_HPP

#include "preinc.hpp"
#include "vt.hpp"
#include "simnet.hpp"

namespace boost::asio { using verif_steady_timer = vt::vtimer; }
namespace boost::asio::ip { using verif_tcp = sim::verif_tcp; }
namespace std::chrono {
struct verif_system_clock {
    using duration = std::chrono::nanoseconds;
    using rep = duration::rep;
    using period = duration::period;
    using time_point = std::chrono::time_point<verif_system_clock, duration>;
    static constexpr bool is_steady = true;
    static time_point now() noexcept { return time_point(duration(vt::g_now_ns)); }
};
}
namespace sim { inline long g_time_seed = 12345; }
namespace std { inline std::time_t verif_time(std::time_t*) { return (std::time_t) sim::g_time_seed; } }

#define steady_timer verif_steady_timer
#define system_clock verif_system_clock
#define tcp verif_tcp
#define time verif_time

#include <boost/mqtt5/mqtt_client.hpp>
#include <boost/mqtt5/types.hpp>
#include <boost/mqtt5/reason_codes.hpp>
#include <boost/mqtt5/logger_traits.hpp>

#undef steady_timer
#undef system_clock
#undef tcp
#undef time

// tcp-like sim stream takes the basic_stream_socket branch of shutdown_op
namespace boost::mqtt5::detail {
template <> inline constexpr bool is_basic_socket<sim::tcp_stream> = true;
}

#endif
