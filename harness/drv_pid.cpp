// C08 driver: drives the REAL packet_id_allocator and records every call with its result and
// the private interval list (read through the guarded verif_probe friend).
//   drv_pid <out.ndjson> <tier> <seed>
// Sequences: (1) every alloc/free sequence up to a depth bound with at most K identifiers
// outstanding (exhaustive small scope), (2) seeded random walks on the real 65535 range incl.
// full exhaustion, pid_overrun (allocate() == 0) and refill.  {"op":"reset"} separates sequences.
#include <cstdio>
#include <cstdlib>
#include <random>
#include <set>
#include <string>
#include <vector>
#include <boost/mqtt5/detail/control_packet.hpp>

namespace boost::mqtt5 {
struct verif_probe {
    static std::string ivs(const detail::packet_id_allocator& a) {
        std::string s = "[";
        for (size_t i = 0; i < a._free_ids.size(); ++i) {
            if (i) s += ",";
            s += "[" + std::to_string(a._free_ids[i].start) + "," + std::to_string(a._free_ids[i].end) + "]";
        }
        return s + "]";
    }
};
}
using boost::mqtt5::detail::packet_id_allocator;
using boost::mqtt5::verif_probe;

static FILE* out;
static long nseq = 0, nev = 0;

static void reset() { fprintf(out, "{\"op\":\"reset\",\"p\":0,\"r\":0,\"iv\":[[65535,0]]}\n"); ++nseq; ++nev; }
static int do_alloc(packet_id_allocator& a) {
    int r = a.allocate();
    fprintf(out, "{\"op\":\"alloc\",\"p\":0,\"r\":%d,\"iv\":%s}\n", r, verif_probe::ivs(a).c_str()); ++nev;
    return r;
}
static void do_free(packet_id_allocator& a, int p) {
    a.free((uint16_t) p);
    fprintf(out, "{\"op\":\"free\",\"p\":%d,\"r\":0,\"iv\":%s}\n", p, verif_probe::ivs(a).c_str()); ++nev;
}

// exhaustive: replay a choice sequence; choice 0 = alloc, k>0 = free the k-th smallest outstanding id
static void replay(const std::vector<int>& seq) {
    packet_id_allocator a; std::set<int> used; reset();
    for (int c : seq) {
        if (c == 0) { int r = do_alloc(a); if (r) used.insert(r); }
        else { auto it = used.begin(); std::advance(it, c - 1); int p = *it; used.erase(it); do_free(a, p); }
    }
}
static void enumerate(std::vector<int>& seq, int outstanding, int depth, int maxout) {
    if (depth == 0) { replay(seq); return; }
    bool leaf = true;
    if (outstanding < maxout) { seq.push_back(0); enumerate(seq, outstanding + 1, depth - 1, maxout); seq.pop_back(); leaf = false; }
    for (int k = 1; k <= outstanding; ++k) { seq.push_back(k); enumerate(seq, outstanding - 1, depth - 1, maxout); seq.pop_back(); leaf = false; }
    if (leaf) replay(seq);
}

int main(int argc, char** argv) {
    if (argc < 4) return 2;
    out = fopen(argv[1], "w"); if (!out) return 2;
    std::string tier = argv[2]; unsigned seed = (unsigned) atol(argv[3]);
    std::vector<int> seq;
    enumerate(seq, 0, tier == "thorough" ? 10 : 8, tier == "thorough" ? 5 : 4);
    std::mt19937 rng(seed);
    int walks = tier == "thorough" ? 60 : 12;
    for (int w = 0; w < walks; ++w) {
        packet_id_allocator a; std::vector<int> used; reset();
        int steps = tier == "thorough" ? 6000 : 2500;
        for (int i = 0; i < steps; ++i) {
            bool al = used.empty() || (rng() % 100) < (w % 3 == 0 ? 65 : 50);
            if (al) { int r = do_alloc(a); if (r) used.push_back(r); }
            else { size_t k = rng() % used.size(); int p = used[k]; used[k] = used.back(); used.pop_back(); do_free(a, p); }
        }
    }
    {   // full exhaustion on the real range, overrun, refill in a scattered order
        packet_id_allocator a; reset();
        std::vector<int> used;
        for (int i = 0; i < 65535; ++i) { int r = do_alloc(a); if (r) used.push_back(r); }
        do_alloc(a); do_alloc(a);                       // pid_overrun twice
        for (int k = 0; k < 400; ++k) { size_t j = rng() % used.size(); int p = used[j]; used[j] = used.back(); used.pop_back(); do_free(a, p); if (k % 3 == 0) { int r = do_alloc(a); if (r) used.push_back(r); } }
    }
    fclose(out);
    fprintf(stderr, "drv_pid: %ld sequences, %ld events\n", nseq, nev);
    return 0;
}
