// C11 driver: drives the REAL boost::mqtt5::detail::async_mutex under a manual executor
// (io_context polled one handler at a time) through every sequence of
//   L  lock() by a new waiter          U  unlock() by the current holder
//   A  cancel()                        Ck per-waiter cancellation of waiter k
//   R  run one posted completion
// up to a depth bound (exhaustive small scope) plus seeded random sequences, and records the calls
// and completions.  spec/TraceMutex.tla validates the record against spec/AsyncMutex.tla.
//   drv_mutex <out.ndjson> <tier> <seed>
#include <boost/asio/io_context.hpp>
#include <boost/asio/bind_cancellation_slot.hpp>
#include <boost/asio/cancellation_signal.hpp>
#include <boost/asio/post.hpp>
#include <boost/mqtt5/detail/async_mutex.hpp>
#include <cstdio>
#include <memory>
#include <random>
#include <string>
#include <vector>

namespace asio = boost::asio;
using boost::mqtt5::detail::async_mutex;
using boost::system::error_code;

static FILE* out;
static long nseq = 0, nev = 0;

struct waiter { int st = 0; /* 0 pending, 1 holder, 2 released, 3 aborted */ std::unique_ptr<asio::cancellation_signal> sig; };

struct run {
    asio::io_context ioc;
    std::vector<waiter> ws;          // the signals must outlive the mutex (its destructor clears their slots)
    std::unique_ptr<async_mutex> m;
    int in_lock = 0;
    run() : m(new async_mutex(ioc.get_executor())) {}

    void ev(const char* op, int w, const char* ec = "") {
        fprintf(out, "{\"op\":\"%s\",\"w\":%d,\"ec\":\"%s\",\"locked\":%d,\"inl\":%d}\n", op, w, ec, m->is_locked() ? 1 : 0, in_lock); ++nev;
    }
    int holder() const { for (size_t i = 0; i < ws.size(); ++i) if (ws[i].st == 1) return (int) i + 1; return 0; }
    void L() {
        ws.emplace_back(); int w = (int) ws.size(); ws.back().sig.reset(new asio::cancellation_signal);
        ev("lock", w); in_lock = w;
        m->lock(asio::bind_cancellation_slot(ws[w - 1].sig->slot(), [this, w](error_code ec) {
            ws[w - 1].st = ec ? 3 : 1;
            ev("done", w, ec ? (ec == asio::error::operation_aborted ? "aborted" : "other") : "ok");
        }));
        in_lock = 0; ev("lock_ret", w);
    }
    bool U() { int h = holder(); if (!h) return false; ws[h - 1].st = 2; ev("unlock", h); m->unlock(); ev("unlock_ret", h); return true; }
    void A() { ev("cancel_all", 0); m->cancel(); ev("cancel_all_ret", 0); }
    bool C(int w) { if (w < 1 || w > (int) ws.size() || ws[w - 1].st != 0) return false; ev("cancel", w); ws[w - 1].sig->emit(asio::cancellation_type::total); ev("cancel_ret", w); return true; }
    bool R() { ioc.restart(); return ioc.poll_one() > 0; }
    void finale() {
        for (int guard = 0; guard < 1000; ++guard) { bool p = false; while (R()) p = true; if (U()) p = true; if (!p) break; }
        ev("end", 0);
    }
};

// a sequence is a list of op codes: 0 L, 1 U, 2 A, 3 R, 10+k cancel waiter k
static bool apply(run& r, int c) {
    if (c == 0) { r.L(); return true; }
    if (c == 1) return r.U();
    if (c == 2) { r.A(); return true; }
    if (c == 3) return r.R();
    return r.C(c - 10);
}
static void execute(const std::vector<int>& seq) {
    fprintf(out, "{\"op\":\"reset\",\"w\":0,\"ec\":\"\",\"locked\":0,\"inl\":0}\n"); ++nev; ++nseq;
    run r; for (int c : seq) apply(r, c);
    r.finale();
}
// enumeration by re-execution: a prefix is extended by every op that is enabled after it
static void enumerate(std::vector<int>& seq, int depth, int maxlocks) {
    // find which ops are enabled after seq (dry run without logging)
    std::vector<int> en;
    {
        FILE* save = out; out = fopen("/dev/null", "w");
        long e0 = nev;
        for (int c : { 0, 1, 2, 3, 11, 12, 13, 14, 15, 16 }) {
            run r; for (int x : seq) apply(r, x);
            if (c == 0 && (int) r.ws.size() >= maxlocks) continue;
            if (c == 2) { bool any = false; for (auto& w : r.ws) if (w.st == 0) any = true; if (!any) continue; }
            if (apply(r, c)) en.push_back(c);
        }
        fclose(out); out = save; nev = e0;
    }
    if (depth == 0 || en.empty()) { execute(seq); return; }
    for (int c : en) { seq.push_back(c); enumerate(seq, depth - 1, maxlocks); seq.pop_back(); }
}

int main(int argc, char** argv) {
    if (argc < 4) return 2;
    out = fopen(argv[1], "w"); if (!out) return 2;
    std::string tier = argv[2]; unsigned seed = (unsigned) atol(argv[3]);
    std::vector<int> seq;
    enumerate(seq, tier == "thorough" ? 8 : 6, tier == "thorough" ? 4 : 3);
    std::mt19937 rng(seed);
    int n = tier == "thorough" ? 20000 : 3000;
    for (int i = 0; i < n; ++i) {
        fprintf(out, "{\"op\":\"reset\",\"w\":0,\"ec\":\"\",\"locked\":0,\"inl\":0}\n"); ++nev; ++nseq;
        run r; int len = 4 + rng() % 20;
        for (int k = 0; k < len; ++k) {
            int c; unsigned x = rng() % 100;
            if (x < 30 && r.ws.size() < 12) c = 0; else if (x < 50) c = 1; else if (x < 57) c = 2; else if (x < 82) c = 3; else c = 11 + rng() % (r.ws.size() + 1);
            apply(r, c);
        }
        r.finale();
    }
    fclose(out);
    fprintf(stderr, "drv_mutex: %ld sequences, %ld events\n", nseq, nev);
    return 0;
}
