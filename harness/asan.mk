# simrun built with AddressSanitizer + UndefinedBehaviorSanitizer (C19: hostile broker bytes)
REPO ?= /repo
OUT  ?= /verif/_work/bin
CXX  ?= g++
$(OUT)/simrun_asan: simrun.cpp | $(OUT)
	$(CXX) -std=c++17 -O1 -g1 -pthread -fsanitize=address,undefined -fno-omit-frame-pointer -I$(REPO)/include -I/verif/harness -DBOOST_MQTT5_VERIF=1 -MMD -MF $@.d -MT $@ $< -o $@
$(OUT):
	mkdir -p $(OUT)
-include $(wildcard $(OUT)/simrun_asan.d)
