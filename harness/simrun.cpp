// simrun: executes scenario scripts against the real boost::mqtt5::mqtt_client
// in virtual time over the simulated network, and records an ndjson trace.
//
//   simrun <scripts.ndjson> <trace-out.ndjson> [--from N] [--to M]
//
// One scenario per input line: {"name":"..","steps":[{"op":..},..]}.
#include "interpose.hpp"
#include "broker.hpp"

#include <boost/json/src.hpp>
#include <unistd.h>

namespace asio = boost::asio;
namespace json = boost::json;
namespace mq = boost::mqtt5;
using boost::system::error_code;
using sim::jev;
using sim::W;

#ifdef VERIF_TCPLIKE
using stream_t = sim::tcp_stream;
static const char* STREAM_KIND = "tcp";
#else
using stream_t = sim::stream;
static const char* STREAM_KIND = "gen";
#endif
using client_t = mq::mqtt_client<stream_t>;

// ------------------------------------------------------------ helpers
static std::string ecname(error_code ec) {
    if (const char* n = sim::ec_name(ec)) return n;
    if (ec.category() == mq::client::get_error_code_category()) {
        switch (ec.value()) {
            case 100: return "malformed_packet"; case 101: return "packet_too_large";
            case 102: return "session_expired"; case 103: return "pid_overrun";
            case 104: return "invalid_topic"; case 105: return "qos_not_supported";
            case 106: return "retain_not_available"; case 107: return "topic_alias_maximum_reached";
            case 108: return "wildcard_subscription_not_available";
            case 109: return "subscription_identifier_not_available";
            case 110: return "shared_subscription_not_available";
        }
    }
    return "other:" + std::to_string(ec.value());
}

template <class Props>
static ref::props_t to_ref(const Props& ps) {
    ref::props_t out;
    ps.visit([&](auto p, const auto& v) {
        using V = std::decay_t<decltype(v)>;
        const uint8_t id = (uint8_t) static_cast<mq::prop::property_type>(p);
        if constexpr (std::is_same_v<V, mq::prop::user_property_value_t>) {
            for (auto& kv : v) out.push_back(ref::prop { id, 0, kv.first, kv.second });
        } else if constexpr (std::is_same_v<V, mq::prop::subscription_identifiers>) {
            for (auto x : v) out.push_back(ref::prop { id, (uint32_t) x, {}, {} });
        } else if constexpr (std::is_same_v<V, std::optional<std::string>>) {
            if (v) out.push_back(ref::prop { id, 0, *v, {} });
        } else {
            if (v) out.push_back(ref::prop { id, (uint32_t) *v, {}, {} });
        }
        return true;
    });
    return out;
}

template <class Props>
static void from_ref(Props& ps, const ref::props_t& in) {
    ps.visit([&](auto p, auto& v) {
        using V = std::decay_t<decltype(v)>;
        const uint8_t id = (uint8_t) static_cast<mq::prop::property_type>(p);
        for (auto& r : in) {
            if (r.id != id) continue;
            if constexpr (std::is_same_v<V, mq::prop::user_property_value_t>) v.emplace_back(r.s1, r.s2);
            else if constexpr (std::is_same_v<V, mq::prop::subscription_identifiers>) v.push_back((int32_t) r.num);
            else if constexpr (std::is_same_v<V, std::optional<std::string>>) v = r.s1;
            else v = (typename V::value_type) r.num;
        }
        return true;
    });
}

static std::string unhex(const std::string& h) {
    std::string o;
    for (size_t i = 0; i + 1 < h.size(); i += 2) o += (char) std::stoi(h.substr(i, 2), nullptr, 16);
    return o;
}

// strings in scripts: plain, or {"hex":".."}, or {"rep":"x","n":1000} (run-length)
static std::string jstr(const json::value& v) {
    if (v.is_string()) return std::string(v.as_string().c_str(), v.as_string().size());
    if (v.is_object()) {
        auto& o = v.as_object();
        if (o.contains("hex")) return unhex(jstr(o.at("hex")));
        if (o.contains("rep")) { std::string r = jstr(o.at("rep")), out; auto n = o.at("n").to_number<long long>(); for (long long i = 0; i < n; ++i) out += r; return out; }
    }
    return {};
}
static long long jint(const json::object& o, const char* k, long long d) {
    auto it = o.find(k); if (it == o.end()) return d;
    if (it->value().is_bool()) return it->value().as_bool();
    return it->value().to_number<long long>();
}
static std::string jstrk(const json::object& o, const char* k, const std::string& d = {}) {
    auto it = o.find(k); return it == o.end() ? d : jstr(it->value());
}
// props: [[id, num] | [id, "str"] | [id, "k", "v"], ...]
static ref::props_t jprops(const json::object& o, const char* k = "props") {
    ref::props_t out;
    auto it = o.find(k); if (it == o.end() || !it->value().is_array()) return out;
    for (auto& e : it->value().as_array()) {
        auto& a = e.as_array();
        ref::prop p; p.id = (uint8_t) a[0].to_number<int>();
        if (a.size() == 3) { p.s1 = jstr(a[1]); p.s2 = jstr(a[2]); }
        else if (a[1].is_number()) p.num = (uint32_t) a[1].to_number<long long>();
        else p.s1 = jstr(a[1]);
        out.push_back(std::move(p));
    }
    return out;
}

// ------------------------------------------------------------ scripted authenticator (enhanced authentication)
static bool g_auth_never_fail = false;   // set by the cooperative suffix (quiesce): the authenticator stops failing
struct sim_authenticator {
    std::string meth; int fail_step = -1;   // 0 client_initial, 1 server_challenge, 2 server_final; -1 never fails
    asio::any_io_executor ex;
    template <typename CompletionToken>
    decltype(auto) async_auth(mq::auth_step_e step, std::string data, CompletionToken&& token) {
        using Signature = void (error_code, std::string);
        auto initiate = [this](auto handler, mq::auth_step_e step, std::string data) {
            error_code ec;
            if ((int) step == fail_step && !g_auth_never_fail) ec = asio::error::no_recovery;
            jev("auth_step").i("step", (int) step).i("fail", ec ? 1 : 0).i("nb", (long long) data.size());
            asio::post(ex, asio::prepend(std::move(handler), ec, std::string("a") + std::to_string((int) step)));
        };
        return asio::async_initiate<CompletionToken, Signature>(initiate, token, step, std::move(data));
    }
    std::string_view method() const { return meth; }
};

// ------------------------------------------------------------ the application
struct op_rec {
    int id = 0; std::string kind;
    bool returned = false; int done = 0; bool inside = false;
    std::unique_ptr<asio::cancellation_signal> sig;
};

static size_t g_max_settle = 0;
static int g_hangs = 0;     // scenarios of this run in which the client did not come to rest
struct app {
    asio::io_context ioc;
    std::unique_ptr<client_t> c;
    sim::broker br;
    std::map<int, op_rec> ops;
    bool recv_loop = false; int next_auto_id = 1000;
    bool terminal_issued = false;   // the application ended the client: it does not re-arm async_receive
    long long handlers_run = 0;
    long long burst_done = 0;
    long long settle_budget = 5000;   // cfg "budget": scenarios that deliver a 64 KiB packet in 7-byte reads need more
    bool aborted = false;

    app() { br.attach(); }

    // one settle() of a healthy client runs under 100 handlers in the ordinary scenario families and about 19 000 for
    // a 64 KiB packet delivered 7 bytes at a time (g_max_settle, reported on stderr; those scenarios raise the budget
    // in their cfg step); a client that keeps itself busy without virtual time advancing is cut off here and reported
    // as a "hang" event
    size_t settle(long long budget = -1) {
        if (budget < 0) budget = settle_budget;
        size_t total = 0;
        struct upd { size_t& t; ~upd() { if (t > g_max_settle) g_max_settle = t; } } u { total };
        try {
            ioc.restart();
            for (;;) {
                size_t k = ioc.poll_one();
                if (!k) break;
                total += k; ++handlers_run;
                if ((long long) total > budget) { jev("hang").i("handlers", (long long) total); aborted = true; ++g_hangs; break; }
            }
        } catch (const std::exception& e) {
            jev("exception").str("what", e.what());
            aborted = true;
        }
        return total;
    }
    size_t step_n(size_t n) {
        size_t total = 0;
        try { ioc.restart(); while (total < n && ioc.poll_one()) ++total; }
        catch (const std::exception& e) { jev("exception").str("what", e.what()); aborted = true; }
        return total;
    }

    bool all_ops_done() const {
        for (auto& [id, o] : ops) if (!o.done && o.kind != "run" && o.kind != "recv") return false;
        return true;
    }

    // the cooperative suffix may stop early only when the client is connected again (or was ended by the application)
    bool quiet() const { return all_ops_done() && br.obl.empty() && (terminal_issued || !c || br.has_live_connection()); }

    op_rec& new_op(int id, const std::string& kind) {
        auto& o = ops[id]; o.id = id; o.kind = kind; o.sig = std::make_unique<asio::cancellation_signal>();
        return o;
    }

    // run `f` from inside a handler so that an inline completion is observable.  With run_now the call is made
    // at once, AHEAD of handlers that are already queued (e.g. cancel() before a queued write completion runs).
    bool run_now = false;
    template <class F>
    void in_handler(F f) {
        if (run_now) { run_now = false; try { f(); } catch (const std::exception& e) { jev("exception").str("what", e.what()); aborted = true; } return; }
        bool ran = false;
        asio::post(ioc, [&] { f(); ran = true; });
        try { ioc.restart(); while (!ran && ioc.poll_one()) ++handlers_run; }
        catch (const std::exception& e) { jev("exception").str("what", e.what()); aborted = true; }
    }

    void configure(const json::object& s) {
        c = std::make_unique<client_t>(ioc);
        int hosts = (int) jint(s, "hosts", 1);
        settle_budget = jint(s, "budget", 5000);
        std::string b;
        for (int i = 0; i < hosts; ++i) { if (i) b += ","; b += "b" + std::to_string(i) + ":" + std::to_string(1883 + i); }
        if (s.contains("brokers")) b = jstrk(s, "brokers");
        c->brokers(b, 1883);
        c->keep_alive((uint16_t) jint(s, "ka", 0));
        std::string cid = jstrk(s, "client_id", "cid"), user = jstrk(s, "user"), pass = jstrk(s, "pass");
        c->credentials(cid, user, pass);
        ref::packet expect; expect.client_id = cid; expect.has_user = !user.empty(); expect.user = user;
        expect.has_pass = !pass.empty(); expect.pass = pass; expect.keepalive = (int) jint(s, "ka", 0);
        if (s.contains("will")) {
            auto& wo = s.at("will").as_object();
            mq::will_props wp; auto rp = jprops(wo); from_ref(wp, rp);
            int q = (int) jint(wo, "qos", 0), r = (int) jint(wo, "retain", 0);
            c->will(mq::will { jstrk(wo, "topic", "w"), jstrk(wo, "payload", "bye"), mq::qos_e(q), mq::retain_e(r), wp });
            expect.has_will = true; expect.will_topic = jstrk(wo, "topic", "w"); expect.will_payload = jstrk(wo, "payload", "bye");
            expect.will_qos = q; expect.will_retain = r; expect.will_props = rp;
        }
        if (s.contains("cprops")) {
            mq::connect_props cp; auto rp = jprops(s, "cprops"); from_ref(cp, rp);
            c->connect_properties(cp); expect.props = rp;
        }
        if (s.contains("auth")) {
            auto& ao = s.at("auth").as_object();
            sim_authenticator a {}; a.meth = jstrk(ao, "method", "m"); a.fail_step = (int) jint(ao, "fail", -1); a.ex = ioc.get_executor();
            std::string meth = a.meth;
            c->authenticator(std::move(a));
            // the CONNECT then carries Authentication Method and the data of the client_initial step
            expect.props.push_back(ref::prop { 0x15, 0, meth, {} });
            expect.props.push_back(ref::prop { 0x16, 0, "a0", {} });
            br.auth_rounds = (int) jint(ao, "rounds", 0);
        }
        sim::g_time_seed = (long) jint(s, "tseed", 12345);
        auto& w = W();
        if (s.contains("disp")) for (auto& d : s.at("disp").as_array()) {
            std::string x = jstr(d); w.host_disp.push_back(x == "refuse" ? sim::disp::refuse : x == "blackhole" ? sim::disp::blackhole : sim::disp::accept);
        }
        if (s.contains("resolve")) for (auto& d : s.at("resolve").as_array()) w.host_resolve.push_back((int) d.to_number<int>());
        w.nep_per_host = (int) jint(s, "nep", 1);
        jev("cfg").i("hosts", hosts).i("ka", jint(s, "ka", 0)).str("dig", ref::connect_digest(expect)).str("stream", STREAM_KIND).i("nep", w.nep_per_host);
    }

    // the client's own view of the capabilities it holds (connack_properties() snapshot)
    void caps(jev& e) {
        namespace P = mq::prop;
        e.i("h_rm", c->connack_property(P::receive_maximum).value_or(65535))
         .i("h_mqos", c->connack_property(P::maximum_qos).value_or(2))
         .i("h_ra", c->connack_property(P::retain_available).value_or(1))
         .i("h_maxpkt", c->connack_property(P::maximum_packet_size).value_or(0))
         .i("h_tam", c->connack_property(P::topic_alias_maximum).value_or(0))
         .i("h_wa", c->connack_property(P::wildcard_subscription_available).value_or(1))
         .i("h_sha", c->connack_property(P::shared_subscription_available).value_or(1))
         .i("h_sia", c->connack_property(P::subscription_identifier_available).value_or(1));
    }

    template <class H>
    auto bind(op_rec& o, H h) { return asio::bind_cancellation_slot(o.sig->slot(), std::move(h)); }

    void do_run(int id) {
        auto& o = new_op(id, "run");
        in_handler([&] {
            jev("call").i("op", id).str("kind", "run").str("dig", "").i("qos", 0).i("nt", 0).str("msg", "");
            o.inside = true;
            c->async_run(bind(o, [this, id](error_code ec) {
                auto& o = ops[id]; ++o.done;
                jev("done").i("op", id).str("kind", "run").str("ec", ecname(ec)).i("rc", 0).ilist("codes", {}).str("pdig", "").i("inl", o.inside).str("msg", "").str("dig", "");
            }));
            o.inside = false; o.returned = true;
            jev("ret").i("op", id);
        });
    }

    template <mq::qos_e Q>
    void do_pub_q(int id, const json::object& s) {
        std::string msg = jstrk(s, "msg", "m" + std::to_string(id));
        std::string topic = jstrk(s, "topic", "t/" + msg);
        std::string payload = s.contains("payload") ? jstrk(s, "payload") : msg + "|" + jstrk(s, "fill", "x");
        int retain = (int) jint(s, "retain", 0);
        auto rp = jprops(s); mq::publish_props pp; from_ref(pp, rp);
        auto& o = new_op(id, "pub" + std::to_string((int) Q));
        in_handler([&] {
            {
                ref::packet rpk; rpk.type = ref::PUBLISH; rpk.topic = topic; rpk.payload = payload; rpk.qos = (int) Q; rpk.retain = retain; rpk.pid = 1; rpk.props = to_ref(pp);
                jev e("call");
                e.i("op", id).str("kind", o.kind).str("dig", ref::publish_digest(topic, payload, (int) Q, retain, to_ref(pp)))
                 .i("qos", (int) Q).i("nt", 0).str("msg", sim::broker::msg_token(payload))
                 .i("len", (long long) ref::encode(rpk).size()).i("retain", retain).i("alias", sim::broker::prop_num(rpk.props, 0x23, -1))
                 .i("wild", 0).i("shared", 0).i("subid", 0);
                caps(e);
            }
            o.inside = true;
            if constexpr (Q == mq::qos_e::at_most_once) {
                c->async_publish<Q>(topic, payload, mq::retain_e(retain), pp, bind(o, [this, id](error_code ec) {
                    auto& o = ops[id]; ++o.done;
                    jev("done").i("op", id).str("kind", o.kind).str("ec", ecname(ec)).i("rc", 0).ilist("codes", {}).str("pdig", "").i("inl", o.inside).str("msg", "").str("dig", "");
                }));
            } else {
                c->async_publish<Q>(topic, payload, mq::retain_e(retain), pp, bind(o, [this, id](error_code ec, mq::reason_code rc, auto props) {
                    auto& o = ops[id]; ++o.done;
                    jev("done").i("op", id).str("kind", o.kind).str("ec", ecname(ec)).i("rc", rc.value()).ilist("codes", {}).str("pdig", ref::props_digest(to_ref(props))).i("inl", o.inside).str("msg", "").str("dig", "");
                }));
            }
            o.inside = false; o.returned = true;
            jev("ret").i("op", id);
        });
    }
    void do_pub(int id, const json::object& s) {
        int q = (int) jint(s, "qos", 1);
        if (q == 0) do_pub_q<mq::qos_e::at_most_once>(id, s);
        else if (q == 1) do_pub_q<mq::qos_e::at_least_once>(id, s);
        else do_pub_q<mq::qos_e::exactly_once>(id, s);
    }

    void do_sub(int id, const json::object& s, bool unsub) {
        std::vector<mq::subscribe_topic> topics; std::vector<std::string> names;
        std::vector<std::pair<std::string, uint8_t>> rsubs;
        if (s.contains("topics")) for (auto& t : s.at("topics").as_array()) {
            mq::subscribe_topic st; uint8_t o = 0;
            if (t.is_object() && !t.as_object().contains("hex") && !t.as_object().contains("rep")) {
                auto& to = t.as_object();
                st.topic_filter = jstrk(to, "f");
                int q = (int) jint(to, "qos", 2), nl = (int) jint(to, "nl", 1), rap = (int) jint(to, "rap", 1), rh = (int) jint(to, "rh", 1);
                st.sub_opts = { mq::qos_e(q), mq::no_local_e(nl), mq::retain_as_published_e(rap), mq::retain_handling_e(rh) };
                o = uint8_t(q | (nl << 2) | (rap << 3) | (rh << 4));
            } else {
                st.topic_filter = jstr(t);
                o = uint8_t(2 | (1 << 2) | (1 << 3) | (1 << 4));
            }
            names.push_back(st.topic_filter); rsubs.emplace_back(st.topic_filter, unsub ? 0 : o); topics.push_back(std::move(st));
        }
        auto rp = jprops(s);
        auto& o = new_op(id, unsub ? "unsub" : "sub");
        auto done = [this, id](error_code ec, std::vector<mq::reason_code> rcs, auto props) {
            auto& o = ops[id]; ++o.done;
            std::vector<int> codes; for (auto& r : rcs) codes.push_back(r.value());
            jev("done").i("op", id).str("kind", o.kind).str("ec", ecname(ec)).i("rc", 0).ilist("codes", codes).str("pdig", ref::props_digest(to_ref(props))).i("inl", o.inside).str("msg", "").str("dig", "");
        };
        in_handler([&] {
            {
                ref::packet rpk; rpk.type = unsub ? ref::UNSUBSCRIBE : ref::SUBSCRIBE; rpk.pid = 1; rpk.subs = rsubs; rpk.props = rp;
                int wild = 0, shared = 0;
                for (auto& t : rsubs) { if (t.first.find('#') != std::string::npos || t.first.find('+') != std::string::npos) wild = 1; if (t.first.compare(0, 7, "$share/") == 0) shared = 1; }
                jev e("call");
                e.i("op", id).str("kind", o.kind).str("dig", ref::subscribe_digest(rsubs, rp)).i("qos", 0).i("nt", (long long) topics.size()).str("msg", "")
                 .i("len", (long long) ref::encode(rpk).size()).i("retain", 0).i("alias", -1)
                 .i("wild", wild).i("shared", shared).i("subid", sim::broker::prop_num(rp, 0x0B, 0) ? 1 : 0);
                caps(e);
            }
            o.inside = true;
            if (unsub) { mq::unsubscribe_props up; from_ref(up, rp); c->async_unsubscribe(names, up, bind(o, done)); }
            else { mq::subscribe_props sp; from_ref(sp, rp); c->async_subscribe(topics, sp, bind(o, done)); }
            o.inside = false; o.returned = true;
            jev("ret").i("op", id);
        });
    }

    void do_recv(int id) {
        auto& o = new_op(id, "recv");
        in_handler([&] {
            jev("call").i("op", id).str("kind", "recv").str("dig", "").i("qos", 0).i("nt", 0).str("msg", "");
            o.inside = true;
            c->async_receive(bind(o, [this, id](error_code ec, std::string topic, std::string payload, mq::publish_props props) {
                auto& o = ops[id]; ++o.done;
                jev("done").i("op", id).str("kind", "recv").str("ec", ecname(ec)).i("rc", 0).ilist("codes", {}).str("pdig", "").i("inl", o.inside)
                    .str("msg", ec ? std::string() : sim::broker::msg_token(payload))
                    .str("dig", ec ? std::string() : ref::publish_digest(topic, payload, 0, 0, to_ref(props)));
                if (recv_loop && !terminal_issued && ec != asio::error::operation_aborted && c) {
                    int nid = next_auto_id++;
                    asio::post(ioc, [this, nid] { if (c) do_recv_inner(nid); });
                }
            }));
            o.inside = false; o.returned = true;
            jev("ret").i("op", id);
        });
    }
    void do_recv_inner(int id) { // already inside a handler
        auto& o = new_op(id, "recv");
        jev("call").i("op", id).str("kind", "recv").str("dig", "").i("qos", 0).i("nt", 0).str("msg", "");
        o.inside = true;
        c->async_receive(bind(o, [this, id](error_code ec, std::string topic, std::string payload, mq::publish_props props) {
            auto& o = ops[id]; ++o.done;
            jev("done").i("op", id).str("kind", "recv").str("ec", ecname(ec)).i("rc", 0).ilist("codes", {}).str("pdig", "").i("inl", o.inside)
                .str("msg", ec ? std::string() : sim::broker::msg_token(payload))
                .str("dig", ec ? std::string() : ref::publish_digest(topic, payload, 0, 0, to_ref(props)));
            if (recv_loop && !terminal_issued && ec != asio::error::operation_aborted && c) {
                int nid = next_auto_id++;
                asio::post(ioc, [this, nid] { if (c) do_recv_inner(nid); });
            }
        }));
        o.inside = false; o.returned = true;
        jev("ret").i("op", id);
    }

    void do_disc(int id, const json::object& s) {
        int rc = (int) jint(s, "rc", 0);
        auto rp = jprops(s); mq::disconnect_props dp; from_ref(dp, rp);
        auto& o = new_op(id, "disc");
        in_handler([&] {
            {
                ref::packet rpk; rpk.type = ref::DISCONNECT; rpk.rc = rc; rpk.props = rp;
                jev e("call");
                e.i("op", id).str("kind", "disc").str("dig", ref::props_digest(rp)).i("qos", rc).i("nt", 0).str("msg", "")
                 .i("len", (long long) ref::encode(rpk).size());
                caps(e);
            }
            o.inside = true;
            c->async_disconnect(mq::disconnect_rc_e(rc), dp, bind(o, [this, id](error_code ec) {
                auto& o = ops[id]; ++o.done;
                jev("done").i("op", id).str("kind", "disc").str("ec", ecname(ec)).i("rc", 0).ilist("codes", {}).str("pdig", "").i("inl", o.inside).str("msg", "").str("dig", "");
            }));
            o.inside = false; o.returned = true;
            jev("ret").i("op", id);
        });
    }

    void fire_one() {
        int64_t due = 0, armed = 0;
        if (vt::timer_registry::get().fire_next(&due, &armed))
            jev("fire").i("due", due / 1000000).i("armed", armed / 1000000);
    }
    void advance(long long ms, bool stop_when_done) {
        int64_t target = vt::g_now_ns + ms * 1000000;
        for (int guard = 0; guard < 100000 && !aborted; ++guard) {
            settle();
            if (stop_when_done && quiet()) break;
            int64_t nd = vt::timer_registry::get().next_deadline();
            if (nd == vt::NEVER || nd > target) break;
            fire_one();
        }
        if (!stop_when_done || !quiet()) if (vt::g_now_ns < target) vt::g_now_ns = target;
        settle();
    }

    int pick_conn(const json::object& s) {
        long long c = jint(s, "c", -1);
        if (c > 0) return (int) c;
        return W().current_conn();
    }

    void leak_report(const char* ev) {
        size_t nt = vt::timer_registry::get().live(), np = W().pending_ops();
        int undone = 0; for (auto& [id, o] : ops) if (!o.done) ++undone;
        ioc.restart(); size_t extra = ioc.poll();
        // "runs out of work": poll() stops the context iff no work is outstanding.  (No run_for / run_one_for here: they
        // compare wall-clock times before entering the scheduler and, on a loaded machine, can return without ever looking
        // at the work count - which produced two spurious "context still has work" reports in 149 000 scenarios.)
        ioc.restart(); extra += ioc.poll();
        bool stopped = ioc.stopped();
        jev(ev).i("timers", (long long) nt).i("pending", (long long) np).i("undone", undone).i("stopped", stopped ? 1 : 0).i("extra", (long long) extra).i("streams", (long long) W().streams.size());
    }

    void exec(const json::object& s) {
        std::string op = jstrk(s, "op");
        bool nr = jint(s, "nr", 0) != 0;
        run_now = jint(s, "now", 0) != 0;
        int id = (int) jint(s, "id", 0);
        auto& w = W();
        if (op == "cfg") configure(s);
        else if (!c && op != "destroy" && op != "end") { jev("diverged").str("step", op); return; }
        else if (op == "run") { terminal_issued = false; do_run(id); }
        else if (op == "pub") do_pub(id, s);
        else if (op == "sub") do_sub(id, s, false);
        else if (op == "unsub") do_sub(id, s, true);
        else if (op == "recv") { recv_loop = jint(s, "loop", 0) != 0; do_recv(id); }
        else if (op == "disc") { terminal_issued = true; do_disc(id, s); }
        else if (op == "cancel_op") {
            auto it = ops.find(id);
            if (it == ops.end() || it->second.done) jev("diverged").str("step", op);
            else {
                std::string ty = jstrk(s, "type", "total");
                auto ct = ty == "terminal" ? asio::cancellation_type::terminal : ty == "partial" ? asio::cancellation_type::partial : asio::cancellation_type::total;
                if (ty == "terminal") terminal_issued = true;
                in_handler([&] { jev("cancel_op").i("op", id).str("type", ty); it->second.sig->emit(ct); });
            }
        }
        else if (op == "cancel_all") { terminal_issued = true; in_handler([&] { jev("cancel_all"); c->cancel(); jev("cancel_all_ret"); }); }
        else if (op == "destroy") { in_handler([&] { jev("destroy"); c.reset(); jev("destroy_ret"); }); }
        else if (op == "set") {
            for (auto& kv : s) {
                auto k = std::string(kv.key());
                if (k == "auto_resolve") w.auto_resolve = jint(s, "auto_resolve", 1);
                else if (k == "auto_connect") w.auto_connect = jint(s, "auto_connect", 1);
                else if (k == "auto_write") w.auto_write = jint(s, "auto_write", 1);
                else if (k == "auto_deliver") w.auto_deliver = jint(s, "auto_deliver", 1);
                else if (k == "auto_shutdown") w.auto_shutdown = jint(s, "auto_shutdown", 1);
                else if (k == "chunk") w.chunk = (size_t) jint(s, "chunk", 0);
                else if (k == "auto_retransmit") br.auto_retransmit = jint(s, "auto_retransmit", 1);
                else if (k == "wfault_at") { w.wfault_at = w.next_wid - 1 + (int) jint(s, "wfault_at", 0); w.wfault_deliver = jint(s, "wfault_deliver", 0); w.wfault_ec = jstrk(s, "wfault_ec", "reset"); }
                else if (k == "rfault_after") { w.rfault_after = w.rbytes_total + jint(s, "rfault_after", 0); }
            }
            if (w.auto_deliver) for (auto& st : w.streams) w.try_deliver(*st);
            if (w.auto_write) for (auto& st : w.streams) if (st->wr) { w.deliver_write(*st, SIZE_MAX); w.finish_write(*st, {}); }
        }
        else if (op == "disp") { // disposition of a host for following attempts
            size_t h = (size_t) jint(s, "host", 0); std::string x = jstrk(s, "d", "accept");
            if (w.host_disp.size() <= h) w.host_disp.resize(h + 1, sim::disp::accept);
            w.host_disp[h] = x == "refuse" ? sim::disp::refuse : x == "blackhole" ? sim::disp::blackhole : sim::disp::accept;
        }
        else if (op == "hold") {
            if (s.contains("kinds")) for (auto& k : s.at("kinds").as_array()) {
                std::string n = jstr(k);
                for (int t = 1; t <= 15; ++t) if (n == ref::type_name(t)) br.hold.insert(t);
            } else for (int t : { ref::PUBACK, ref::PUBREC, ref::PUBCOMP, ref::SUBACK, ref::UNSUBACK }) br.hold.insert(t);
        }
        else if (op == "unhold") br.release_all();
        else if (op == "ack") {
            sim::broker::ack_override ov; bool has = false;
            if (s.contains("rc")) { ov.rc = (int) jint(s, "rc", 0); has = true; }
            if (s.contains("rcx")) { ov.rcx = (int) jint(s, "rcx", 0); has = true; }
            if (s.contains("codes")) { ov.has_codes = true; has = true; for (auto& x : s.at("codes").as_array()) ov.codes.push_back(x.to_number<int>()); }
            if (s.contains("props")) { ov.props = jprops(s); has = true; }
            if (s.contains("short")) { ov.shortform = (int) jint(s, "short", 0); has = true; }
            size_t i = (size_t) jint(s, "i", 0);
            if (s.contains("pid")) { // select by (kind?, pid)
                int pid = (int) jint(s, "pid", 0); i = br.obl.size();
                for (size_t k = 0; k < br.obl.size(); ++k) if (br.obl[k].pid == pid) { i = k; break; }
            }
            if (!br.answer(i, has ? &ov : nullptr)) jev("diverged").str("step", op);
        }
        else if (op == "connack") { // configuration of the next CONNACK(s)
            sim::connack_cfg cfg; cfg.sp = (int) jint(s, "sp", -1); cfg.rc = (int) jint(s, "rc", 0); cfg.props = jprops(s);
            if (jint(s, "sticky", 0)) br.connack_default = cfg; else br.connack_queue.push_back(cfg);
        }
        else if (op == "burst") {
            // n QoS 0 publishes that are not traced (they only age the client's internal counters, e.g. the serial numbers
            // that order re-sent packets): the handlers are run every 64 calls
            long long n = jint(s, "n", 1000); long long done_before = burst_done;
            bool tr = w.tracing; w.tracing = false;
            for (long long i = 0; i < n && !aborted; ++i) {
                c->async_publish<mq::qos_e::at_most_once>("burst", "", mq::retain_e::no, mq::publish_props {}, [this](error_code) { ++burst_done; });
                if ((i & 63) == 63) settle();
            }
            settle();
            w.tracing = tr;
            jev("burst").i("calls", n).i("completed", burst_done - done_before);
        }
        else if (op == "lose") { // a reply the broker owes is lost on the way (nothing is sent; the connection stays healthy)
            size_t i = (size_t) jint(s, "i", 0);
            if (i < br.obl.size()) { jev("b_lose").i("c", br.obl[i].conn).i("type", br.obl[i].kind).i("pid", br.obl[i].pid); br.obl.erase(br.obl.begin() + (long) i); }
            else jev("diverged").str("step", op);
        }
        else if (op == "bpub") {
            int cc = pick_conn(s);
            std::string msg = jstrk(s, "msg", "b" + std::to_string(br.ksend));
            std::string payload = s.contains("payload") ? jstrk(s, "payload") : msg + "|" + jstrk(s, "fill", "y");
            if (cc < 0 || br.publish(cc, jstrk(s, "topic", "in/" + msg), payload, (int) jint(s, "qos", 0), (int) jint(s, "retain", 0), jprops(s)) == -1)
                jev("diverged").str("step", op);
        }
        else if (op == "bretransmit") { int cc = pick_conn(s); if (cc >= 0) br.retransmit(cc); }
        else if (op == "bdisc") { int cc = pick_conn(s); if (cc >= 0) br.disconnect(cc, (int) jint(s, "rc", 0x8b), jprops(s)); else jev("diverged").str("step", op); }
        else if (op == "bclose") { int cc = pick_conn(s); if (cc >= 0) br.close(cc); else jev("diverged").str("step", op); }
        else if (op == "bbytes") {
            int cc = pick_conn(s);
            std::string bytes;
            if (s.contains("pub_total")) {
                // a QoS 0 PUBLISH whose encoded size, fixed header included, is exactly pub_total bytes
                long long total = jint(s, "pub_total", 0); std::string topic = "in/big";
                for (int vl = 1; vl <= 4 && bytes.empty(); ++vl) {
                    long long rl = total - 1 - vl; if (rl < (long long) topic.size() + 3) continue;
                    std::string v; long long x = rl; do { unsigned char b = x & 0x7f; x >>= 7; if (x) b |= 0x80; v.push_back((char) b); } while (x);
                    if ((int) v.size() != vl) continue;
                    bytes.push_back((char) 0x30); bytes += v; bytes.push_back(0); bytes.push_back((char) topic.size()); bytes += topic; bytes.push_back(0);
                    std::string pay = "big|"; pay.resize((size_t) (rl - topic.size() - 3), 'z'); bytes += pay;
                }
            }
            else bytes = s.contains("hex") ? unhex(jstrk(s, "hex")) : jstrk(s, "data");
            if (cc >= 0 && !bytes.empty()) br.raw(cc, bytes); else jev("diverged").str("step", op);
        }
        else if (op == "fault") { // transport fault on the current connection
            int cc = pick_conn(s);
            std::string on = jstrk(s, "on", "both");
            if (cc < 0) jev("diverged").str("step", op);
            else { jev("fault").i("c", cc).str("ec", jstrk(s, "ec", "reset")).str("on", on);
                   w.fault(cc, sim::ec_from(jstrk(s, "ec", "reset")), on != "write", on != "read"); }
        }
        else if (op == "rdeliver") { // hand the client's pending read up to n bytes
            bool ok = false;
            for (auto& st : w.streams) if (st->rd) { auto* cn = w.find_conn(st->conn_id); if (cn && (!cn->b2c.empty() || cn->broker_closed || cn->dead)) { w.try_deliver(*st, (size_t) jint(s, "nb", 0)); ok = true; } }
            if (!ok) jev("diverged").str("step", op);
        }
        else if (op == "wdeliver") { // first n more bytes of the pending write reach the broker
            bool ok = false;
            for (auto& st : w.streams) if (st->wr) { w.deliver_write(*st, s.contains("nb") ? (size_t) jint(s, "nb", 0) : SIZE_MAX); ok = true; }
            if (!ok && !jint(s, "opt", 0)) jev("diverged").str("step", op);      // opt: a step that may have nothing to act on
        }
        else if (op == "wend") { // complete the pending write (after delivering the rest unless an error is given)
            bool ok = false;
            std::string e = jstrk(s, "ec", "ok");
            for (auto& st : w.streams) if (st->wr) {
                if (e == "ok" && jint(s, "drop", 0)) {
                    // the write is reported successful (the bytes sit in a send buffer) but what was not delivered yet never
                    // reaches the broker: the connection is lost right afterwards
                    int cid = st->conn_id;
                    w.finish_write(*st, {});
                    jev("fault").i("c", cid).str("ec", "reset").str("on", "after_write");
                    w.fault(cid, sim::ec_from("reset"), true, true);
                }
                else if (e == "ok") { w.deliver_write(*st, SIZE_MAX); w.finish_write(*st, {}); }
                else { auto* cn = w.find_conn(st->conn_id); if (cn) { cn->dead = true; cn->dead_ec = sim::ec_from(e); w.conn_end(*cn, "fault"); } w.finish_write(*st, sim::ec_from(e)); }
                ok = true; break;
            }
            if (!ok && !jint(s, "opt", 0)) jev("diverged").str("step", op);
        }
        else if (op == "conn_ok" || op == "conn_fail") {
            bool ok = false;
            for (auto& st : w.streams) if (st->cn) { w.finish_connect(*st, op == "conn_ok" ? error_code {} : sim::ec_from(jstrk(s, "ec", "refused"))); ok = true; break; }
            if (!ok) jev("diverged").str("step", op);
        }
        else if (op == "resolve_ok" || op == "resolve_fail") {
            if (w.resolves.empty()) jev("diverged").str("step", op);
            else w.finish_resolve(w.resolves.begin()->first, op == "resolve_ok" ? error_code {} : error_code(asio::error::host_not_found));
        }
        else if (op == "shutdown_ok") {
            bool ok = false;
            for (auto& st : w.streams) if (st->sh) { auto p = std::move(*st->sh); st->sh.reset(); sim::world::post_to(st->ex, std::move(p.h), error_code {}); ok = true; break; }
            if (!ok) jev("diverged").str("step", op);
        }
        else if (op == "step") { step_n((size_t) jint(s, "k", 1)); return; }
        else if (op == "fire") { fire_one(); }
        else if (op == "advance") { advance(jint(s, "ms", 1000), false); return; }
        else if (op == "quiesce") {
            if (jint(s, "release", 1)) { // fault-free, cooperative suffix
                g_auth_never_fail = true;
                w.auto_resolve = w.auto_connect = w.auto_write = w.auto_deliver = w.auto_shutdown = true; w.chunk = 0;
                for (auto& d : w.host_disp) d = sim::disp::accept;
                for (auto& r : w.host_resolve) r = 1;
                br.connack_queue.clear(); if (br.connack_default.rc >= 0x80) br.connack_default.rc = 0;
                for (auto& st : w.streams) { if (st->cn) w.finish_connect(*st, {}); }
                while (!w.resolves.empty()) w.finish_resolve(w.resolves.begin()->first, {});
                for (auto& st : w.streams) if (st->wr) { w.deliver_write(*st, SIZE_MAX); w.finish_write(*st, {}); }
                br.release_all();
                for (auto& st : w.streams) w.try_deliver(*st);
            }
            jev("quiesce_begin");
            advance(jint(s, "ms", 120000), true);
            int undone = 0; for (auto& [oid, o] : ops) if (!o.done && o.kind != "run" && o.kind != "recv") ++undone;
            jev("quiesce_end").i("undone", undone);
            return;
        }
        else if (op == "drain") { settle(); leak_report("drain"); return; }
        else jev("diverged").str("step", op);
        if (!nr) settle();
    }

    void finish() {
        if (c) { in_handler([&] { jev("destroy"); c.reset(); jev("destroy_ret"); }); }
        settle();
        leak_report("end");
        // nothing may survive into the next scenario
        vt::timer_registry::get().reset();
        ops.clear();
    }
};

#ifdef BOOST_MQTT5_VERIF
// internal events reported by the guarded hooks of the library (include/boost/mqtt5/detail/verif.hpp)
static void hook_sink(const char* name, long a, long b, long c, long d) {
    jev("h").str("k", name).i("a", a).i("b", b).i("c", c).i("d", d);
}
#endif

static void on_terminate() {
    fprintf(stderr, "simrun: std::terminate\n");
    if (W().out) { fputs("{\"e\":\"terminate\",\"n\":0,\"t\":0}\n", W().out); fflush(W().out); }
    _exit(3);
}

int main(int argc, char** argv) {
    if (argc < 3) { fprintf(stderr, "usage: simrun scripts.ndjson trace.ndjson [--from N] [--to M] [--quiet]\n"); return 2; }
    std::set_terminate(on_terminate);
#ifdef BOOST_MQTT5_VERIF
    if (!getenv("VERIF_NO_HOOKS")) boost::mqtt5::verif::sink() = hook_sink;
#endif
    long from = 0, to = LONG_MAX;
    for (int i = 3; i < argc; ++i) {
        if (!strcmp(argv[i], "--from") && i + 1 < argc) from = atol(argv[++i]);
        else if (!strcmp(argv[i], "--to") && i + 1 < argc) to = atol(argv[++i]);
    }
    FILE* in = fopen(argv[1], "r"); if (!in) { perror(argv[1]); return 2; }
    FILE* out = fopen(argv[2], "w"); if (!out) { perror(argv[2]); return 2; }
    W().out = out;
    char* line = nullptr; size_t cap = 0; long idx = 0; long ran = 0;
    while (getline(&line, &cap, in) > 0) {
        long my = idx++;
        if (my < from || my >= to) continue;
        std::string_view sv(line);
        while (!sv.empty() && (sv.back() == '\n' || sv.back() == '\r')) sv.remove_suffix(1);
        if (sv.empty()) continue;
        json::value v;
        try { v = json::parse(sv); } catch (const std::exception& e) { fprintf(stderr, "simrun: bad script line %ld: %s\n", my, e.what()); return 2; }
        auto& o = v.as_object();
        W().reset_scenario();
        g_auth_never_fail = false;
        vt::g_now_ns = 0;
        {
            app a;
            jev("reset").i("sc", my).str("name", jstrk(o, "name", "")).str("stream", STREAM_KIND);
            // after three scenarios in which the client kept itself busy forever the rest of the file is not executed
            // (each such scenario costs tens of thousands of events; the verdict is there already)
            if (g_hangs >= 3) jev("skipped");
            else for (auto& st : o.at("steps").as_array()) {
                if (a.aborted) break;
                a.exec(st.as_object());
            }
            a.finish();
        }
        ++ran;
    }
    fclose(out); fclose(in);
    fprintf(stderr, "simrun: %ld scenarios, %lld events, max handlers per settle %zu\n", ran, W().events, g_max_settle);
    return 0;
}
