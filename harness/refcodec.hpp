// Independent MQTT 5.0 codec written from the OASIS text (not from the library):
// strict decoder for every packet type, encoder for every packet type, property
// table with value types and the packets each property may appear in, canonical
// digests. Used by the simulated broker, the wire monitor (C17), the vector
// drivers (C17/C18/C19) and cross-checked against spec/Wire.tla vectors.
#ifndef VERIF_REFCODEC_HPP
#define VERIF_REFCODEC_HPP

#include <cstdint>
#include <cstdio>
#include <string>
#include <vector>
#include <algorithm>

namespace ref {

enum ptype : uint8_t { CONNECT = 1, CONNACK, PUBLISH, PUBACK, PUBREC, PUBREL, PUBCOMP, SUBSCRIBE,
                       SUBACK, UNSUBSCRIBE, UNSUBACK, PINGREQ, PINGRESP, DISCONNECT, AUTH, WILL = 16 };

inline const char* type_name(int t) {
    static const char* n[] = { "RESERVED", "CONNECT", "CONNACK", "PUBLISH", "PUBACK", "PUBREC", "PUBREL", "PUBCOMP",
        "SUBSCRIBE", "SUBACK", "UNSUBSCRIBE", "UNSUBACK", "PINGREQ", "PINGRESP", "DISCONNECT", "AUTH", "WILL" };
    return t >= 0 && t <= 16 ? n[t] : "?";
}

enum pkind : uint8_t { K_BYTE, K_U16, K_U32, K_VARINT, K_UTF8, K_BIN, K_PAIR };

struct propdef { uint8_t id; pkind kind; uint32_t packets; bool repeat; };
constexpr uint32_t B(int t) { return 1u << t; }

inline const std::vector<propdef>& prop_table() {
    static const std::vector<propdef> t = {
        { 0x01, K_BYTE,   B(PUBLISH) | B(WILL), false },
        { 0x02, K_U32,    B(PUBLISH) | B(WILL), false },
        { 0x03, K_UTF8,   B(PUBLISH) | B(WILL), false },
        { 0x08, K_UTF8,   B(PUBLISH) | B(WILL), false },
        { 0x09, K_BIN,    B(PUBLISH) | B(WILL), false },
        { 0x0B, K_VARINT, B(PUBLISH) | B(SUBSCRIBE), false /* repeat only in PUBLISH, see below */ },
        { 0x11, K_U32,    B(CONNECT) | B(CONNACK) | B(DISCONNECT), false },
        { 0x12, K_UTF8,   B(CONNACK), false },
        { 0x13, K_U16,    B(CONNACK), false },
        { 0x15, K_UTF8,   B(CONNECT) | B(CONNACK) | B(AUTH), false },
        { 0x16, K_BIN,    B(CONNECT) | B(CONNACK) | B(AUTH), false },
        { 0x17, K_BYTE,   B(CONNECT), false },
        { 0x18, K_U32,    B(WILL), false },
        { 0x19, K_BYTE,   B(CONNECT), false },
        { 0x1A, K_UTF8,   B(CONNACK), false },
        { 0x1C, K_UTF8,   B(CONNACK) | B(DISCONNECT), false },
        { 0x1F, K_UTF8,   B(CONNACK) | B(PUBACK) | B(PUBREC) | B(PUBREL) | B(PUBCOMP) | B(SUBACK) | B(UNSUBACK) | B(DISCONNECT) | B(AUTH), false },
        { 0x21, K_U16,    B(CONNECT) | B(CONNACK), false },
        { 0x22, K_U16,    B(CONNECT) | B(CONNACK), false },
        { 0x23, K_U16,    B(PUBLISH), false },
        { 0x24, K_BYTE,   B(CONNACK), false },
        { 0x25, K_BYTE,   B(CONNACK), false },
        { 0x26, K_PAIR,   B(CONNECT) | B(CONNACK) | B(PUBLISH) | B(WILL) | B(PUBACK) | B(PUBREC) | B(PUBREL) | B(PUBCOMP) | B(SUBSCRIBE) | B(SUBACK) | B(UNSUBSCRIBE) | B(UNSUBACK) | B(DISCONNECT) | B(AUTH), true },
        { 0x27, K_U32,    B(CONNECT) | B(CONNACK), false },
        { 0x28, K_BYTE,   B(CONNACK), false },
        { 0x29, K_BYTE,   B(CONNACK), false },
        { 0x2A, K_BYTE,   B(CONNACK), false },
    };
    return t;
}
inline const propdef* find_prop(uint8_t id) {
    for (auto& p : prop_table()) if (p.id == id) return &p;
    return nullptr;
}

struct prop {
    uint8_t id = 0; uint32_t num = 0; std::string s1, s2;
    bool operator==(const prop& o) const { return id == o.id && num == o.num && s1 == o.s1 && s2 == o.s2; }
};
using props_t = std::vector<prop>;

struct packet {
    bool ok = false; std::string err;
    uint8_t type = 0, flags = 0;
    size_t wire_len = 0;
    int pid = -1; int rc = -1; props_t props;
    bool rc_omitted = false, props_omitted = false;
    // CONNECT
    std::string proto; int level = 0; uint8_t cflags = 0; int keepalive = 0; std::string client_id;
    bool has_will = false; props_t will_props; std::string will_topic, will_payload; int will_qos = 0, will_retain = 0;
    bool has_user = false, has_pass = false; std::string user, pass; int clean_start = 0;
    // CONNACK
    int sp = 0;
    // PUBLISH
    std::string topic, payload; int qos = 0, dup = 0, retain = 0;
    // SUBSCRIBE / UNSUBSCRIBE
    std::vector<std::pair<std::string, uint8_t>> subs;
    // SUBACK / UNSUBACK
    std::vector<uint8_t> codes;
};

// ------------------------------------------------------------------ decoding
// Received strings: MQTT calls ill-formed UTF-8 in a received packet a Malformed Packet [MQTT-1.5.4-1], but a client
// that does not validate incoming text is not what C19 is about (structure, bounds, recognised frames).  When judging
// BROKER bytes the framework therefore checks structure only (strict_strings = false); packets WRITTEN by the client
// (C17) are always checked strictly.
inline bool strict_strings = true;

struct rd {
    const unsigned char* p; const unsigned char* e; bool fail = false;
    size_t left() const { return size_t(e - p); }
    uint8_t u8() { if (left() < 1) { fail = true; return 0; } return *p++; }
    uint16_t u16() { if (left() < 2) { fail = true; return 0; } uint16_t v = (p[0] << 8) | p[1]; p += 2; return v; }
    uint32_t u32() { if (left() < 4) { fail = true; return 0; } uint32_t v = (uint32_t(p[0]) << 24) | (p[1] << 16) | (p[2] << 8) | p[3]; p += 4; return v; }
    uint32_t varint() {
        uint32_t v = 0; int sh = 0;
        for (int i = 0; i < 4; ++i) {
            if (left() < 1) { fail = true; return 0; }
            uint8_t b = *p++; v |= uint32_t(b & 0x7f) << sh; sh += 7;
            if (!(b & 0x80)) { // minimal encoding not required by MQTT for decoding
                return v;
            }
        }
        fail = true; return 0;
    }
    std::string bin() { uint16_t n = u16(); if (fail || left() < n) { fail = true; return {}; } std::string s((const char*) p, n); p += n; return s; }
};

// strict UTF-8 per MQTT 1.5.4: well-formed, no U+0000, no surrogates; (control / non-characters are
// "SHOULD NOT" for senders; the reference flags them separately)
inline bool utf8_wellformed(const std::string& s, bool* has_ctrl_or_nonchar = nullptr) {
    if (!strict_strings) return true;
    size_t i = 0, n = s.size();
    if (has_ctrl_or_nonchar) *has_ctrl_or_nonchar = false;
    while (i < n) {
        unsigned char c = s[i]; uint32_t cp; int len;
        if (c < 0x80) { cp = c; len = 1; }
        else if (c >= 0xC2 && c <= 0xDF) { cp = c & 0x1F; len = 2; }
        else if (c >= 0xE0 && c <= 0xEF) { cp = c & 0x0F; len = 3; }
        else if (c >= 0xF0 && c <= 0xF4) { cp = c & 0x07; len = 4; }
        else return false;
        if (i + len > n) return false;
        for (int k = 1; k < len; ++k) { unsigned char d = s[i + k]; if ((d & 0xC0) != 0x80) return false; cp = (cp << 6) | (d & 0x3F); }
        if (len == 3 && cp < 0x800) return false;
        if (len == 4 && (cp < 0x10000 || cp > 0x10FFFF)) return false;
        if (cp >= 0xD800 && cp <= 0xDFFF) return false;
        if (cp == 0) return false;
        if (has_ctrl_or_nonchar) {
            if ((cp >= 1 && cp <= 0x1F) || (cp >= 0x7F && cp <= 0x9F) || (cp >= 0xFDD0 && cp <= 0xFDEF) || (cp & 0xFFFE) == 0xFFFE)
                *has_ctrl_or_nonchar = true;
        }
        i += len;
    }
    return true;
}

inline bool decode_props(rd& r, int pkt, props_t& out, std::string& err) {
    uint32_t len = r.varint();
    if (r.fail || r.left() < len) { err = "property length"; return false; }
    rd q { r.p, r.p + len };
    r.p += len;
    std::vector<uint8_t> seen;
    while (q.left()) {
        uint32_t idv = q.varint();
        if (q.fail || idv > 0xff) { err = "property id"; return false; }
        auto* d = find_prop((uint8_t) idv);
        if (!d) { err = "unknown property " + std::to_string(idv); return false; }
        if (!(d->packets & B(pkt))) { err = std::string("property ") + std::to_string(idv) + " not allowed in " + type_name(pkt); return false; }
        bool may_repeat = d->repeat || (d->id == 0x0B && pkt == PUBLISH);
        if (!may_repeat && std::find(seen.begin(), seen.end(), d->id) != seen.end()) { err = "duplicate property " + std::to_string(idv); return false; }
        seen.push_back(d->id);
        prop p; p.id = d->id;
        switch (d->kind) {
            case K_BYTE: p.num = q.u8(); break;
            case K_U16: p.num = q.u16(); break;
            case K_U32: p.num = q.u32(); break;
            case K_VARINT: p.num = q.varint(); break;
            case K_UTF8: p.s1 = q.bin(); if (!q.fail && !utf8_wellformed(p.s1)) { err = "property string not UTF-8"; return false; } break;
            case K_BIN: p.s1 = q.bin(); break;
            case K_PAIR: p.s1 = q.bin(); p.s2 = q.bin();
                if (!q.fail && (!utf8_wellformed(p.s1) || !utf8_wellformed(p.s2))) { err = "user property not UTF-8"; return false; } break;
        }
        if (q.fail) { err = "property value truncated"; return false; }
        out.push_back(std::move(p));
    }
    return true;
}

// Parses one packet at the start of [data, data+n). Returns 0 if more bytes are needed,
// otherwise the packet's total length (pkt.ok says whether it is well-formed).
// from_client: direction (flags / allowed types are direction-independent in MQTT; kept for Will handling).
inline size_t decode_packet(const unsigned char* data, size_t n, packet& pk) {
    pk = packet {};
    if (n < 2) return 0;
    rd h { data + 1, data + std::min<size_t>(n, 5) };
    uint32_t rl = 0; int sh = 0; bool done = false; size_t hl = 1;
    for (int i = 0; i < 4 && h.left(); ++i) { uint8_t b = *h.p++; ++hl; rl |= uint32_t(b & 0x7f) << sh; sh += 7; if (!(b & 0x80)) { done = true; break; } }
    if (!done) { if (hl >= 5) { pk.err = "remaining length > 4 bytes"; pk.type = data[0] >> 4; pk.wire_len = n; return n; } return 0; }
    if (n < hl + rl) return 0;
    pk.type = data[0] >> 4; pk.flags = data[0] & 0x0f; pk.wire_len = hl + rl;
    rd r { data + hl, data + hl + rl };
    auto bad = [&](const std::string& e) { pk.ok = false; pk.err = e; return pk.wire_len; };
    auto need_flags = [&](uint8_t f) { return pk.flags == f; };
    switch (pk.type) {
    case CONNECT: {
        if (!need_flags(0)) return bad("flags");
        pk.proto = r.bin(); pk.level = r.u8(); pk.cflags = r.u8(); pk.keepalive = r.u16();
        if (r.fail) return bad("truncated");
        if (pk.proto != "MQTT" || pk.level != 5) return bad("protocol name/level");
        if (pk.cflags & 1) return bad("reserved connect flag");
        pk.clean_start = (pk.cflags >> 1) & 1; pk.has_will = (pk.cflags >> 2) & 1;
        pk.will_qos = (pk.cflags >> 3) & 3; pk.will_retain = (pk.cflags >> 5) & 1;
        pk.has_pass = (pk.cflags >> 6) & 1; pk.has_user = (pk.cflags >> 7) & 1;
        if (!pk.has_will && (pk.will_qos || pk.will_retain)) return bad("will flags without will");
        if (pk.will_qos == 3) return bad("will qos 3");
        if (!decode_props(r, CONNECT, pk.props, pk.err)) return bad(pk.err);
        pk.client_id = r.bin(); if (r.fail) return bad("client id");
        if (!utf8_wellformed(pk.client_id)) return bad("client id utf8");
        if (pk.has_will) {
            if (!decode_props(r, WILL, pk.will_props, pk.err)) return bad(pk.err);
            pk.will_topic = r.bin(); pk.will_payload = r.bin(); if (r.fail) return bad("will");
            if (!utf8_wellformed(pk.will_topic)) return bad("will topic utf8");
        }
        if (pk.has_user) { pk.user = r.bin(); if (r.fail || !utf8_wellformed(pk.user)) return bad("user"); }
        if (pk.has_pass) { pk.pass = r.bin(); if (r.fail) return bad("password"); }
        if (r.left()) return bad("trailing bytes");
        break; }
    case CONNACK: {
        if (!need_flags(0)) return bad("flags");
        uint8_t f = r.u8(); pk.rc = r.u8(); if (r.fail) return bad("truncated");
        if (f & 0xfe) return bad("connack flags"); pk.sp = f & 1;
        if (!decode_props(r, CONNACK, pk.props, pk.err)) return bad(pk.err);
        if (r.left()) return bad("trailing bytes");
        break; }
    case PUBLISH: {
        pk.dup = (pk.flags >> 3) & 1; pk.qos = (pk.flags >> 1) & 3; pk.retain = pk.flags & 1;
        if (pk.qos == 3) return bad("qos 3");
        if (pk.qos == 0 && pk.dup) return bad("dup with qos 0");
        pk.topic = r.bin(); if (r.fail) return bad("topic");
        if (!utf8_wellformed(pk.topic)) return bad("topic utf8");
        if (pk.qos) { pk.pid = r.u16(); if (r.fail) return bad("pid"); if (pk.pid == 0) return bad("pid 0"); }
        if (!decode_props(r, PUBLISH, pk.props, pk.err)) return bad(pk.err);
        pk.payload.assign((const char*) r.p, r.left());
        break; }
    case PUBACK: case PUBREC: case PUBREL: case PUBCOMP: {
        if (!need_flags(pk.type == PUBREL ? 2 : 0)) return bad("flags");
        pk.pid = r.u16(); if (r.fail) return bad("pid"); if (pk.pid == 0) return bad("pid 0");
        if (!r.left()) { pk.rc = 0; pk.rc_omitted = pk.props_omitted = true; break; }
        pk.rc = r.u8();
        if (!r.left()) { pk.props_omitted = true; break; }
        if (!decode_props(r, pk.type, pk.props, pk.err)) return bad(pk.err);
        if (r.left()) return bad("trailing bytes");
        break; }
    case SUBSCRIBE: {
        if (!need_flags(2)) return bad("flags");
        pk.pid = r.u16(); if (r.fail) return bad("pid"); if (pk.pid == 0) return bad("pid 0");
        if (!decode_props(r, SUBSCRIBE, pk.props, pk.err)) return bad(pk.err);
        if (!r.left()) return bad("no topic filter");
        while (r.left()) {
            auto t = r.bin(); auto o = r.u8(); if (r.fail) return bad("topic filter");
            if (!utf8_wellformed(t)) return bad("filter utf8");
            if (o & 0xC0) return bad("reserved subscribe option bits");
            if ((o & 3) == 3) return bad("subscribe qos 3");
            if (((o >> 4) & 3) == 3) return bad("retain handling 3");
            pk.subs.emplace_back(std::move(t), o);
        }
        break; }
    case UNSUBSCRIBE: {
        if (!need_flags(2)) return bad("flags");
        pk.pid = r.u16(); if (r.fail) return bad("pid"); if (pk.pid == 0) return bad("pid 0");
        if (!decode_props(r, UNSUBSCRIBE, pk.props, pk.err)) return bad(pk.err);
        if (!r.left()) return bad("no topic filter");
        while (r.left()) { auto t = r.bin(); if (r.fail) return bad("topic filter"); if (!utf8_wellformed(t)) return bad("filter utf8"); pk.subs.emplace_back(std::move(t), 0); }
        break; }
    case SUBACK: case UNSUBACK: {
        if (!need_flags(0)) return bad("flags");
        pk.pid = r.u16(); if (r.fail) return bad("pid");
        if (!decode_props(r, pk.type, pk.props, pk.err)) return bad(pk.err);
        if (!r.left()) return bad("no reason codes");
        while (r.left()) pk.codes.push_back(r.u8());
        break; }
    case PINGREQ: case PINGRESP:
        if (!need_flags(0)) return bad("flags");
        if (r.left()) return bad("non-empty ping");
        break;
    case DISCONNECT: case AUTH: {
        if (!need_flags(0)) return bad("flags");
        if (!r.left()) { pk.rc = 0; pk.rc_omitted = pk.props_omitted = true; break; }
        pk.rc = r.u8();
        if (!r.left()) { pk.props_omitted = true; break; }
        if (!decode_props(r, pk.type, pk.props, pk.err)) return bad(pk.err);
        if (r.left()) return bad("trailing bytes");
        break; }
    default: return bad("reserved packet type");
    }
    pk.ok = true;
    return pk.wire_len;
}

// ------------------------------------------------------------------ encoding
inline void put_u16(std::string& o, uint32_t v) { o += char(v >> 8); o += char(v & 0xff); }
inline void put_u32(std::string& o, uint32_t v) { o += char(v >> 24); o += char((v >> 16) & 0xff); o += char((v >> 8) & 0xff); o += char(v & 0xff); }
inline void put_varint(std::string& o, uint32_t v) { do { uint8_t b = v & 0x7f; v >>= 7; if (v) b |= 0x80; o += char(b); } while (v); }
inline void put_bin(std::string& o, const std::string& s) { put_u16(o, (uint32_t) s.size()); o += s; }

inline std::string encode_props_body(const props_t& ps) {
    std::string o;
    for (auto& p : ps) {
        auto* d = find_prop(p.id); if (!d) continue;
        put_varint(o, p.id);
        switch (d->kind) {
            case K_BYTE: o += char(p.num); break;
            case K_U16: put_u16(o, p.num); break;
            case K_U32: put_u32(o, p.num); break;
            case K_VARINT: put_varint(o, p.num); break;
            case K_UTF8: case K_BIN: put_bin(o, p.s1); break;
            case K_PAIR: put_bin(o, p.s1); put_bin(o, p.s2); break;
        }
    }
    return o;
}
inline std::string encode_props(const props_t& ps) { auto b = encode_props_body(ps); std::string o; put_varint(o, (uint32_t) b.size()); return o + b; }
inline std::string frame(uint8_t type, uint8_t flags, const std::string& body) {
    std::string o; o += char((type << 4) | flags); put_varint(o, (uint32_t) body.size()); return o + body;
}

// short: 0 = full form, 1 = omit property length when no props, 2 = omit rc+props when rc==0 && no props
inline std::string encode(const packet& pk, int shortform = 0) {
    std::string b;
    switch (pk.type) {
    case CONNECT: {
        put_bin(b, "MQTT"); b += char(5);
        uint8_t f = (pk.clean_start << 1) | (pk.has_will << 2) | (pk.will_qos << 3) | (pk.will_retain << 5) | (pk.has_pass << 6) | (pk.has_user << 7);
        b += char(f); put_u16(b, pk.keepalive); b += encode_props(pk.props); put_bin(b, pk.client_id);
        if (pk.has_will) { b += encode_props(pk.will_props); put_bin(b, pk.will_topic); put_bin(b, pk.will_payload); }
        if (pk.has_user) put_bin(b, pk.user);
        if (pk.has_pass) put_bin(b, pk.pass);
        return frame(CONNECT, 0, b); }
    case CONNACK: b += char(pk.sp & 1); b += char(pk.rc); b += encode_props(pk.props); return frame(CONNACK, 0, b);
    case PUBLISH: {
        put_bin(b, pk.topic); if (pk.qos) put_u16(b, pk.pid); b += encode_props(pk.props); b += pk.payload;
        return frame(PUBLISH, (pk.dup << 3) | (pk.qos << 1) | pk.retain, b); }
    case PUBACK: case PUBREC: case PUBREL: case PUBCOMP: {
        put_u16(b, pk.pid);
        if (shortform == 2 && pk.rc == 0 && pk.props.empty()) return frame(pk.type, pk.type == PUBREL ? 2 : 0, b);
        b += char(pk.rc);
        if (!(shortform >= 1 && pk.props.empty())) b += encode_props(pk.props);
        return frame(pk.type, pk.type == PUBREL ? 2 : 0, b); }
    case SUBSCRIBE: {
        put_u16(b, pk.pid); b += encode_props(pk.props);
        for (auto& s : pk.subs) { put_bin(b, s.first); b += char(s.second); }
        return frame(SUBSCRIBE, 2, b); }
    case UNSUBSCRIBE: {
        put_u16(b, pk.pid); b += encode_props(pk.props);
        for (auto& s : pk.subs) put_bin(b, s.first);
        return frame(UNSUBSCRIBE, 2, b); }
    case SUBACK: case UNSUBACK: {
        put_u16(b, pk.pid); b += encode_props(pk.props); for (auto c : pk.codes) b += char(c);
        return frame(pk.type, 0, b); }
    case PINGREQ: case PINGRESP: return frame(pk.type, 0, "");
    case DISCONNECT: case AUTH: {
        if (shortform == 2 && pk.rc == 0 && pk.props.empty()) return frame(pk.type, 0, b);
        b += char(pk.rc);
        if (!(shortform >= 1 && pk.props.empty())) b += encode_props(pk.props);
        return frame(pk.type, 0, b); }
    }
    return {};
}

// ------------------------------------------------------------------ digests
inline uint64_t fnv(const std::string& s, uint64_t h = 1469598103934665603ull) {
    for (unsigned char c : s) { h ^= c; h *= 1099511628211ull; }
    return h;
}
inline std::string hex64(uint64_t v) { char b[20]; snprintf(b, sizeof b, "%016llx", (unsigned long long) v); return b; }

// canonical property order: by id, equal ids keep their relative order
inline props_t canon(props_t ps) {
    std::stable_sort(ps.begin(), ps.end(), [](const prop& a, const prop& b) { return a.id < b.id; });
    return ps;
}
inline std::string props_digest(const props_t& ps) { return hex64(fnv(encode_props_body(canon(ps)))); }

inline std::string publish_digest(const std::string& topic, const std::string& payload, int qos, int retain, const props_t& ps) {
    std::string s; put_bin(s, topic); put_u32(s, (uint32_t) payload.size()); s += payload; s += char(qos); s += char(retain);
    s += encode_props_body(canon(ps));
    return hex64(fnv(s));
}
inline std::string subscribe_digest(const std::vector<std::pair<std::string, uint8_t>>& subs, const props_t& ps) {
    std::string s; for (auto& t : subs) { put_bin(s, t.first); s += char(t.second); }
    s += '|'; s += encode_props_body(canon(ps));
    return hex64(fnv(s));
}
inline std::string connect_digest(const packet& p) {
    std::string s; put_bin(s, p.client_id); s += char(p.has_user); put_bin(s, p.user); s += char(p.has_pass); put_bin(s, p.pass);
    put_u16(s, p.keepalive); s += encode_props_body(canon(p.props)); s += char(p.has_will);
    if (p.has_will) { put_bin(s, p.will_topic); put_bin(s, p.will_payload); s += char(p.will_qos); s += char(p.will_retain); s += encode_props_body(canon(p.will_props)); }
    return hex64(fnv(s));
}

} // namespace ref

#endif
