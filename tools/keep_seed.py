#!/usr/bin/env python3
"""keep_seed.py <worktree> <seed-id> <property> <caught-by json> <needs...>  : copy a confirmed seeded change into /verif/seeded/<id>/"""
import json, os, shutil, sys
wt, sid, prop, caught = sys.argv[1:5]
needs = " ".join(sys.argv[5:])
d = "/verif/seeded/" + sid
shutil.rmtree(d, ignore_errors=True); os.makedirs(d)
shutil.copy(os.path.join(wt, "OUT", "patch.diff"), d)
if os.path.isdir(os.path.join(wt, "OUT", "demo")): shutil.copytree(os.path.join(wt, "OUT", "demo"), os.path.join(d, "demo"))
if os.path.exists(os.path.join(wt, "OUT", "README.md")): shutil.copy(os.path.join(wt, "OUT", "README.md"), os.path.join(d, "AGENT-README.md"))
conf = ""
p = os.path.join(wt, "OUT", "confirm.log")
if os.path.exists(p): conf = open(p).read()[-1500:]
meta = dict(id=sid, breaks=prop, needs_to_manifest=needs, caught_by=json.loads(caught),
            confirmed=dict(what_was_run=["tools/confirm_seed.sh <worktree>: full existing suite with the change (tools/run_suite.sh: failing real-time tests re-run in isolation), demonstration with the change (must fail), demonstration without it (must pass)",
                                         "tools/tryseed.sh patch.diff <property>: git -C /repo apply; ./check <property>; git -C /repo checkout -- ."],
                           confirm_log_tail=conf),
            produced_by="independent sub-agent given only the property text and a scratch worktree")
json.dump(meta, open(os.path.join(d, "meta.json"), "w"), indent=1)
print("kept", d)
