#!/usr/bin/env python3
"""Signature predicates of known findings.  A violation is attributed to a known finding
only if the finding's predicate recognises the SPECIFIC history that fails; any other
violation of the same clause is reported as a VIOLATION."""


def _before(events, n):
    return [e for e in events if e["n"] < n]


def cancelled_publish_aborted_after_reconnect(events, v):
    """F4: Receive Maximum exceeded on a connection on which, after its CONNACK and before the
    violating PUBLISH, a caller-cancelled QoS>0 publish completed with operation_aborted
    (it returns send quota it never held)."""
    ev = _before(events, v["n"])
    viol = next((e for e in events if e["n"] == v["n"]), None)
    if not viol: return False
    c = viol.get("c")
    cack = [e["n"] for e in ev if e["e"] == "b_send" and e.get("type") == "CONNACK" and e.get("c") == c]
    if not cack: return False
    cancelled = {e["op"] for e in ev if e["e"] == "cancel_op"}
    for e in ev:
        if e["e"] == "done" and e["n"] > cack[-1] and e.get("ec") == "aborted" and e.get("op") in cancelled and e.get("kind") in ("pub1", "pub2"):
            return True
    # quota stays too high on that connection after the first excess: later excesses have the same cause
    return False


def quota_corrupted_earlier(events, v):
    """F4 (continued): once the quota was inflated by the cancelled publish, it stays inflated for
    every later connection as well (the surplus is carried through throttled_op_done)."""
    ev = _before(events, v["n"])
    cancelled = {e["op"] for e in ev if e["e"] == "cancel_op"}
    cacks = [e["n"] for e in ev if e["e"] == "b_send" and e.get("type") == "CONNACK" and e.get("rc", 0) < 128]
    if len(cacks) < 2: return False
    for e in ev:
        if e["e"] == "done" and e["n"] > cacks[1] - 1 and e.get("ec") == "aborted" and e.get("op") in cancelled and e.get("kind") in ("pub1", "pub2"):
            return True
    return False


def unsolicited_pubrel(events, v):
    """F5: a PUBREL for an exchange the client already completed (its PUBCOMP was lost) is never answered."""
    # the connection that still owes a PUBCOMP got the PUBREL as a retransmission on a resumed session
    ev = _before(events, v["n"])
    rel = [e for e in ev if e["e"] == "b_send" and e.get("type") == "PUBREL"]
    if not rel: return False
    last = rel[-1]
    # the client had written a PUBCOMP for that id on an earlier connection
    return any(e["e"] == "c_pkt" and e.get("type") == "PUBCOMP" and e.get("pid") == last["pid"] and e.get("c") != last["c"] for e in ev)


def inbound_ack_write_failed_after_delivery(events, v):
    """F5/F10: before the violation, a client write carrying an acknowledgement of a broker PUBLISH (PUBACK, PUBREC or
    PUBCOMP) completed with an error although that acknowledgement had reached the broker.  publish_rec_op abandons
    the exchange on any write error, the broker considers the step done: the message is never handed to the
    application / the retransmitted PUBREL finds no waiter."""
    ev = _before(events, v["n"] + 1)
    failed = {(e["c"], e["w"]) for e in ev if e["e"] == "c_write_end" and e.get("ec") != "ok"}
    if not failed: return False
    for p in ev:
        if p["e"] == "c_pkt" and (p["c"], p["w"]) in failed and p.get("type") in ("PUBACK", "PUBREC", "PUBCOMP"):
            if any(r["e"] == "b_recv" and r.get("c") == p["c"] and r.get("type") == p["type"] and r.get("pid") == p["pid"] and r["n"] > p["n"] for r in ev):
                return True
    return False


def inbound_pubcomp_lost_after_successful_write(events, v):
    """F5 (mirror image): before the violation a client write carrying a PUBCOMP was reported successful although none /
    not all of its bytes reached the broker, and the connection was lost right afterwards (bytes accepted by the local
    send buffer and never transmitted).  The operation has completed, the broker re-sends its PUBREL on the resumed
    session, and nothing in the client answers a PUBREL nobody waits for."""
    ev = _before(events, v["n"] + 1)
    lost = set()
    for i, e in enumerate(ev):
        if e["e"] == "c_write_end" and e.get("ec") == "ok":
            nxt = ev[i + 1] if i + 1 < len(ev) else None
            if nxt and nxt["e"] == "fault" and nxt.get("on") == "after_write" and nxt.get("c") == e.get("c"):
                lost.add((e["c"], e["w"]))
    if not lost: return False
    return any(p["e"] == "c_pkt" and (p["c"], p["w"]) in lost and p.get("type") == "PUBCOMP" for p in ev)


def inbound_pubrec_lost_after_successful_write(events, v):
    """F17: before the violation a client write carrying a PUBREC was reported successful although its bytes never reached
    the broker (connection lost right afterwards).  The operation waits for PUBREL while the broker, which got no PUBREC,
    re-sends the PUBLISH (DUP) on the resumed session: two operations now exist for one exchange."""
    ev = _before(events, v["n"] + 1)
    lost = set()
    for i, e in enumerate(ev):
        if e["e"] == "c_write_end" and e.get("ec") == "ok":
            nxt = ev[i + 1] if i + 1 < len(ev) else None
            if nxt and nxt["e"] == "fault" and nxt.get("on") == "after_write" and nxt.get("c") == e.get("c"):
                lost.add((e["c"], e["w"]))
    if not lost: return False
    return any(p["e"] == "c_pkt" and (p["c"], p["w"]) in lost and p.get("type") == "PUBREC" for p in ev)


PREDICATES = {f.__name__: f for f in (cancelled_publish_aborted_after_reconnect, quota_corrupted_earlier, unsolicited_pubrel,
                                        inbound_ack_write_failed_after_delivery, inbound_pubcomp_lost_after_successful_write,
                                        inbound_pubrec_lost_after_successful_write)}


def match(finding, events, v):
    sig = finding.get("signature", {})
    preds = sig.get("any_of") or ([sig["pred"]] if "pred" in sig else [])
    return any(PREDICATES[p](events, v) for p in preds if p in PREDICATES)
