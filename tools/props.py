#!/usr/bin/env python3
"""Registry: what decides each property."""

import stages
import stage_c16
import stage_wire

TRACE_FAMILIES = ["send", "recv", "lifecycle", "connect", "caps", "keepalive", "crash", "session", "model", "modelrecv", "lifecycle@tcp", "connect@tcp"]

# scenarios per family
SIZES = dict(quick=dict(**{'lifecycle@tcp': 400, 'connect@tcp': 300}, model=1, modelrecv=1, session=700, misbehave=500, crash=1, send=1600, recv=1200, lifecycle=1200, connect=900, caps=900, keepalive=700),
             thorough=dict(**{'lifecycle@tcp': 8000, 'connect@tcp': 5000}, model=100000, modelrecv=100000, session=12000, misbehave=8000, crash=100000, send=40000, recv=25000, lifecycle=25000, connect=15000, caps=12000, keepalive=12000))

TRACE_ASSUME = [
    "the simulated broker/network of harness/ (conformant MQTT 5 broker, transport faults only) stands for the environment",
    "harness/refcodec.hpp decodes what the client wrote and computes the content digests compared by the clauses",
    "token interposition (harness/interpose.hpp) replaces asio::steady_timer, system_clock, tcp::resolver and std::time for the library sources only",
    "TLC evaluates spec/Observer.tla on every recorded event; clauses say no more than the property statement",
]

PROPS = {
    "C01": dict(stages=[stages.l1_client], title="publish success is truthful", prefixes=["C01_"], families=TRACE_FAMILIES,
                relevant=lambda e: e["e"] == "done" and e.get("kind") in ("pub1", "pub2") and e.get("ec") == "ok"),
    "C02": dict(stages=[stages.l1_client, stages.asan_pass(["crash", "recv", "session"])], title="no silent loss", prefixes=["C02_"], families=TRACE_FAMILIES,
                relevant=lambda e: e["e"] in ("fault", "conn_end") or (e["e"] == "attempt_end" and e.get("res") != "ok")),
    "C03": dict(stages=[stages.l1_client], title="QoS 2 sender discipline, faithful retransmission", prefixes=["C03_"], families=TRACE_FAMILIES,
                relevant=lambda e: e["e"] == "c_pkt" and e.get("type") == "PUBLISH" and e.get("dup") == 1),
    "C04": dict(stages=[stages.l1_recv], title="inbound acknowledgement and delivery", prefixes=["C04_"], families=TRACE_FAMILIES,
                relevant=lambda e: e["e"] == "b_send" and e.get("type") == "PUBLISH" and e.get("qos", 0) > 0),
    "C05": dict(stages=[stages.l1_lifecycle, stages.asan_pass(["lifecycle", "send"])], title="exactly-once non-re-entrant completion; cancel drains", prefixes=["C05_"], families=TRACE_FAMILIES,
                relevant=lambda e: e["e"] in ("cancel_all", "destroy", "cancel_op") or (e["e"] == "call" and e.get("kind") == "disc")),
    "C06": dict(stages=[stages.l1_client], title="PUBLISH order", prefixes=["C06_"], families=TRACE_FAMILIES,
                relevant=lambda e: e["e"] == "c_pkt" and e.get("type") == "PUBLISH" and e.get("dup") == 1),
    "C07": dict(stages=[stages.l1_client], title="Receive Maximum", prefixes=["C07_"], families=TRACE_FAMILIES,
                relevant=lambda e: e["e"] == "b_send" and e.get("type") == "CONNACK" and e.get("rm", 65535) < 65535),
    "C08": dict(stages=[stages.l1_client, stages.c08_alloc], title="packet identifiers", prefixes=["C08_"], families=TRACE_FAMILIES,
                relevant=lambda e: e["e"] == "c_pkt" and e.get("pid", 0) > 1),
    "C09": dict(stages=[stages.l1_lifecycle], title="async_disconnect", prefixes=["C09_"], families=TRACE_FAMILIES,
                relevant=lambda e: e["e"] == "call" and e.get("kind") == "disc"),
    "C10": dict(stages=[stages.l1_conn], title="CONNECT first, CONNACK gate, rotation and timing", prefixes=["C10_"], families=TRACE_FAMILIES,
                relevant=lambda e: e["e"] == "resolve"),
    "C11": dict(stages=[stages.c11_mutex, stages.l1_conn], title="single-flight reconnection", prefixes=["C11_"], families=TRACE_FAMILIES,
                relevant=lambda e: e["e"] == "attempt"),
    "C12": dict(stages=[stages.l1_keepalive], title="keep-alive", prefixes=["C12_"], families=TRACE_FAMILIES,
                relevant=lambda e: e["e"] == "c_pkt" and e.get("type") == "PINGREQ" or (e["e"] == "c_read_end" and e.get("ec") == "timed_out")),
    "C13": dict(stages=[stages.l1_session], title="session_expired exactly once", prefixes=["C13_"], families=TRACE_FAMILIES,
                relevant=lambda e: e["e"] == "done" and e.get("ec") == "session_expired"),
    "C14": dict(stages=[stages.l1_client], title="SUBSCRIBE/UNSUBSCRIBE verdicts", prefixes=["C14_"], families=TRACE_FAMILIES + ["misbehave"],
                relevant=lambda e: e["e"] == "done" and e.get("kind") in ("sub", "unsub") and e.get("ec") == "ok"),
    "C15": dict(title="announced capabilities", prefixes=["C15_"], families=TRACE_FAMILIES,
                relevant=lambda e: e["e"] == "done" and e.get("ec") in ("packet_too_large", "qos_not_supported", "retain_not_available",
                                                                        "topic_alias_maximum_reached", "wildcard_subscription_not_available",
                                                                        "shared_subscription_not_available", "subscription_identifier_not_available")),
    "C20": dict(stages=[stages.c20_stage], title="reason-code admission", prefixes=["C20_"], families=[], relevant=lambda e: False,
                level="model_checking",
                assume=["spec/ReasonCodes.tla is a faithful transcription of the MQTT 5 reason-code tables",
                        "AddressSanitizer red zones around the (internal-linkage) lookup tables reveal accesses outside them"]),
    "C16": dict(stages=[stage_c16.stage], title="request validation = MQTT 5 well-formedness", prefixes=["C16_"], families=[], relevant=lambda e: False,
                assume=["spec/Utf8Topic.tla is a faithful transcription of Unicode ch.3 (UTF-8) and MQTT 5 sections 1.5.4, 4.7, 4.8.2",
                        "the enumeration is exhaustive only over the stated alphabet / all code points, not over all byte strings"]),
    "C17": dict(stages=[stage_wire.stage], title="every emitted packet is well-formed and says what was asked", prefixes=["C17_"], families=TRACE_FAMILIES,
                relevant=lambda e: e["e"] == "c_pkt",
                assume=["spec/Wire.tla is a faithful transcription of the MQTT 5 wire format; vectors are a bounded, boundary-oriented enumeration",
                        "wire monitor: harness/refcodec.hpp strictly decodes every packet the client writes in every scenario"]),
    "C18": dict(stages=[stage_wire.stage], title="well-formed broker packets decode exactly", prefixes=["C18_"], families=[], relevant=lambda e: False,
                assume=["spec/Wire.tla is a faithful transcription of the MQTT 5 wire format; vectors are a bounded, boundary-oriented enumeration"]),
    "C19": dict(stages=[stages.c19_stage], title="hostile broker bytes", prefixes=["C19_"], families=[], relevant=lambda e: False,
                level="exploration",
                assume=["memory-safety is observed by AddressSanitizer/UBSan on the enumerated hostile inputs only (no proof, no coverage-guided fuzzing)",
                        "structure only: ill-formed UTF-8 inside an otherwise well-formed broker packet is not counted as malformed (see DESIGN 0.5)",
                        "chunking independence is judged by comparing outcome signatures of the same byte stream cut in 3 ways (python), the other clauses by TLC on the traces"]),
}
