#!/usr/bin/env python3
"""Extra stages of the checks: TLC model checking of the implementation-shaped specifications (L1),
vector drivers for pure functions, component replays."""
import hashlib, json, os, re, shutil, time
import vlib
from vlib import log, CheckError

# invariant of Client.tla -> property it formulates
CLIENT_INV = {
    "InvReceiveMaximum": ["C07"], "InvPublishOrder": ["C06"], "InvTruthful": ["C01", "C14"],
    "InvNoPublishAfterRelease": ["C03"], "InvPidUnique": ["C08"], "InvPidNonZero": ["C08"],
    "InvAbortOnlyIfCancelled": ["C02"], "DoneWhenQuiet": ["C02"], "TypeOK": ["C07"],
}


def _spec_hash(files):
    h = hashlib.sha256()
    for f in files:
        with open(os.path.join(vlib.SPEC, f), "rb") as fh: h.update(fh.read())
    return h.hexdigest()[:16]


def run_model(module, cfg, deps, timeout=3000, workers=None, simulate=None, java_opts="-Xmx24g"):
    """runs TLC on spec/<module> with spec/<cfg>; result cached on the spec text (the model does not depend on /repo)"""
    key = "%s-%s-%s" % (module, cfg, _spec_hash(deps + [cfg]))
    cdir = os.path.join(vlib.WORK, "cache"); os.makedirs(cdir, exist_ok=True)
    cp = os.path.join(cdir, "l1-" + key + ".json")
    if os.path.exists(cp):
        with open(cp) as f: r = json.load(f)
        r["cached"] = True
        return r
    t0 = time.time()
    extra = "-lncheck final" if False else ""
    if simulate: extra += " -simulate num=%d -depth %d" % simulate
    rc, out = vlib.tlc(module, cfg, workers=workers or vlib.NCPU, timeout=timeout, extra=extra, java_opts=java_opts)
    for f in os.listdir(vlib.SPEC):
        if "_TTrace_" in f: os.remove(os.path.join(vlib.SPEC, f))
    gen, dist = vlib.tlc_stats(out)
    viol = re.findall(r"Invariant (\w+) is violated", out)
    ok = ("No error has been found" in out) or simulate is not None and not viol and "Error" not in out
    if not ok and not viol:
        raise CheckError("TLC failed on %s/%s: %s" % (module, cfg, out[-3000:]))
    m = re.search(r"The depth of the complete state graph search is (\d+)", out)
    r = dict(module=module, cfg=cfg, generated=gen, distinct=dist, depth=int(m.group(1)) if m else 0,
             violated=viol, wall=round(time.time() - t0, 1), cached=False)
    if viol:
        d = os.path.join(vlib.WORK, "replay", "L1-%s" % cfg)
        shutil.rmtree(d, ignore_errors=True); os.makedirs(d)
        with open(os.path.join(d, "tlc.txt"), "w") as f: f.write(out)
        r["replay"] = d
        bad = re.findall(r'bad = (\{[^}]*\})', out)
        r["clauses"] = sorted(set(re.findall(r'"(C\d\d_\w+)"', bad[-1]))) if bad else []
    with open(cp, "w") as f: json.dump(r, f)
    return r


CLIENT_DEPS = ["Client.tla", "MCClient.tla", "Observer.tla"]


def l1_client(pid, tier, seed):
    """exhaustive TLC runs of the send-engine model; plus the two 'defect switch' configurations, which MUST fail
    (they show that the invariants are not vacuous and that the model is the design the fixes were made against)"""
    cfgs = ["MCClient.lean3.cfg", "MCClient.obs2q.cfg"]
    if tier == "thorough": cfgs += ["MCClient.lean4.cfg", "MCClient.obs2.cfg"]
    out = dict(name="L1 Client.tla", states=0, transitions=0, violations=0, runs=[], samples=[])
    for cfg in cfgs:
        r = run_model("MCClient.tla", cfg, CLIENT_DEPS)
        out["states"] += r["distinct"]; out["transitions"] += r["generated"]
        out["runs"].append({k: r[k] for k in ("cfg", "generated", "distinct", "depth", "violated", "wall", "cached")})
        for inv in r["violated"]:
            props = CLIENT_INV.get(inv, [])
            hit = pid in props or (inv == "NoViolation" and any(c.startswith(pid + "_") for c in r.get("clauses", [])))
            if hit:
                out["violations"] += 1
                log("VIOLATION property=%s replay=%s model=%s invariant=%s" % (pid, r["replay"], cfg, inv))
            else:
                log("NOTE model %s violates %s (formulates %s), not this property" % (cfg, inv, ",".join(props) or r.get("clauses")))
    # non-vacuity: the defect switches must be caught
    for cfg, why in (("MCClient.f4.cfg", "quota reset before re-queueing (F4)"), ("MCClient.s1.cfg", "second resend on one stream (S1)")):
        r = run_model("MCClient.tla", cfg, CLIENT_DEPS)
        out["runs"].append({k: r[k] for k in ("cfg", "generated", "distinct", "depth", "violated", "wall", "cached")})
        if not r["violated"]:
            raise CheckError("model self-test: %s (%s) was NOT caught by the model invariants" % (cfg, why))
    out["samples"].append(dict(model="MCClient.tla", configs=cfgs, note="one TLA+ action per handler body; see spec/Client.tla"))
    return out
