#!/usr/bin/env python3
"""Extra stages of the checks: TLC model checking of the implementation-shaped specifications (L1),
vector drivers for pure functions, component replays."""
import hashlib, json, os, re, shutil, time
import vlib
from vlib import log, CheckError

# invariant of Client.tla -> property it formulates
CLIENT_INV = {
    "InvReceiveMaximum": ["C07"], "InvPublishOrder": ["C06"], "InvTruthful": ["C01", "C14"],
    "InvNoPublishAfterRelease": ["C03"], "InvPidUnique": ["C08"], "InvPidNonZero": ["C08"],
    "InvAbortOnlyIfCancelled": ["C02"], "DoneWhenQuiet": ["C02"], "TypeOK": ["C07"],
}


def _spec_hash(files):
    h = hashlib.sha256()
    for f in files:
        with open(os.path.join(vlib.SPEC, f), "rb") as fh: h.update(fh.read())
    return h.hexdigest()[:16]


def run_model(module, cfg, deps, timeout=3000, workers=None, simulate=None, java_opts="-Xmx24g"):
    """runs TLC on spec/<module> with spec/<cfg>; result cached on the spec text (the model does not depend on /repo)"""
    key = "%s-%s-%s" % (module, cfg, _spec_hash(deps + [cfg]))
    cdir = os.path.join(vlib.WORK, "cache"); os.makedirs(cdir, exist_ok=True)
    cp = os.path.join(cdir, "l1-" + key + ".json")
    if os.path.exists(cp):
        with open(cp) as f: r = json.load(f)
        r["cached"] = True
        return r
    t0 = time.time()
    extra = "-lncheck final" if False else ""
    if simulate: extra += " -simulate num=%d -depth %d" % simulate
    rc, out = vlib.tlc(module, cfg, workers=workers or vlib.NCPU, timeout=timeout, extra=extra, java_opts=java_opts)
    for f in os.listdir(vlib.SPEC):
        if "_TTrace_" in f: os.remove(os.path.join(vlib.SPEC, f))
    gen, dist = vlib.tlc_stats(out)
    viol = re.findall(r"Invariant (\w+) is violated", out)
    ok = ("No error has been found" in out) or simulate is not None and not viol and "Error" not in out
    if not ok and not viol:
        raise CheckError("TLC failed on %s/%s: %s" % (module, cfg, out[-3000:]))
    m = re.search(r"The depth of the complete state graph search is (\d+)", out)
    r = dict(module=module, cfg=cfg, generated=gen, distinct=dist, depth=int(m.group(1)) if m else 0,
             violated=viol, wall=round(time.time() - t0, 1), cached=False)
    if viol:
        d = os.path.join(vlib.WORK, "replay", "L1-%s" % cfg)
        shutil.rmtree(d, ignore_errors=True); os.makedirs(d)
        with open(os.path.join(d, "tlc.txt"), "w") as f: f.write(out)
        r["replay"] = d
        bad = re.findall(r'bad = (\{[^}]*\})', out)
        r["clauses"] = sorted(set(re.findall(r'"(C\d\d_\w+)"', bad[-1]))) if bad else []
    with open(cp, "w") as f: json.dump(r, f)
    return r


CLIENT_DEPS = ["Client.tla", "MCClient.tla", "Observer.tla"]


def l1_client(pid, tier, seed):
    """exhaustive TLC runs of the send-engine model; plus the two 'defect switch' configurations, which MUST fail
    (they show that the invariants are not vacuous and that the model is the design the fixes were made against)"""
    cfgs = ["MCClient.lean3.cfg", "MCClient.obs2q.cfg", "MCClient.obs2q.K_su.cfg"]
    if tier == "thorough": cfgs += ["MCClient.lean4.cfg", "MCClient.obs2.cfg", "MCClient.obs2.K_u2.cfg"]
    out = dict(name="L1 Client.tla", states=0, transitions=0, violations=0, runs=[], samples=[])
    for cfg in cfgs:
        r = run_model("MCClient.tla", cfg, CLIENT_DEPS)
        out["states"] += r["distinct"]; out["transitions"] += r["generated"]
        out["runs"].append({k: r[k] for k in ("cfg", "generated", "distinct", "depth", "violated", "wall", "cached")})
        for inv in r["violated"]:
            props = CLIENT_INV.get(inv, [])
            hit = pid in props or (inv == "NoViolation" and any(c.startswith(pid + "_") for c in r.get("clauses", [])))
            if hit:
                out["violations"] += 1
                log("VIOLATION property=%s replay=%s model=%s invariant=%s" % (pid, r["replay"], cfg, inv))
            else:
                log("NOTE model %s violates %s (formulates %s), not this property" % (cfg, inv, ",".join(props) or r.get("clauses")))
    # non-vacuity: the defect switches must be caught
    for cfg, why in (("MCClient.f4.cfg", "quota reset before re-queueing (F4)"), ("MCClient.s1.cfg", "second resend on one stream (S1)")):
        r = run_model("MCClient.tla", cfg, CLIENT_DEPS)
        out["runs"].append({k: r[k] for k in ("cfg", "generated", "distinct", "depth", "violated", "wall", "cached")})
        if not r["violated"]:
            raise CheckError("model self-test: %s (%s) was NOT caught by the model invariants" % (cfg, why))
    out["samples"].append(dict(model="MCClient.tla", configs=cfgs, note="one TLA+ action per handler body; see spec/Client.tla"))
    return out


# ----------------------------------------------------------------------------- C20
def build_pure(target):
    os.makedirs(vlib.BIN, exist_ok=True)
    rc, out = vlib.sh("flock %s/build.lock make -C %s/harness -f pure.mk REPO=%s OUT=%s %s/%s" % (vlib.WORK, vlib.VERIF, vlib.REPO, vlib.BIN, vlib.BIN, target), timeout=1800)
    if rc != 0:
        log(out[-4000:]); raise CheckError("build of %s failed" % target)


def _viol_lines(out):
    v = []
    for line in out.splitlines():
        line = line.strip().strip('"')
        if line.startswith("VIOL "):
            p = line.split()
            v.append((p[1], p[2]))
    return v


def report_simple(pid, items, note_of):
    """items: list of (clause, cls, detail). prints KNOWN-FINDING / VIOLATION lines; returns number of new violations"""
    known = [k for k in vlib.load_findings() if k["property"] == pid and k["status"] == "open"]
    groups, new = {}, 0
    for (cl, cls, detail) in items: groups.setdefault((cl, cls), []).append(detail)
    for (cl, cls), det in sorted(groups.items()):
        k = next((k for k in known if k["clause"] == cl and k.get("signature", {}).get("class") in (cls, "*")), None)
        if k:
            log("KNOWN-FINDING: property=%s %s: %s [%s/%s, %d occurrence(s)]" % (pid, k["id"], k["what"], cl, cls, len(det)))
            continue
        d = os.path.join(vlib.WORK, "replay", "%s-%s-%s" % (pid, cl, cls))
        shutil.rmtree(d, ignore_errors=True); os.makedirs(d)
        with open(os.path.join(d, "inputs.txt"), "w") as f:
            f.write(note_of(cl, cls) + "\n")
            for x in det[:200]: f.write(str(x) + "\n")
        log("VIOLATION property=%s replay=%s clause=%s class=%s count=%d" % (pid, d, cl, cls, len(det)))
        new += 1
    return new


def c20_stage(pid, tier, seed):
    build_pure("vec_rc")
    d = os.path.join(vlib.WORK, "run", "c20"); shutil.rmtree(d, ignore_errors=True); os.makedirs(d)
    res = os.path.join(d, "results.ndjson")
    rc, out = vlib.sh([os.path.join(vlib.BIN, "vec_rc"), res], timeout=300,
                      env=dict(ASAN_OPTIONS="halt_on_error=0:detect_leaks=0", UBSAN_OPTIONS="print_stacktrace=1"))
    with open(os.path.join(d, "stderr.txt"), "w") as f: f.write(out)
    if rc != 0 and not os.path.exists(res):
        raise CheckError("vec_rc failed: " + out[-2000:])
    items = []
    last = None
    for line in out.splitlines():
        if line.startswith("PROBE "): last = line.split()[1:3]
        elif "ERROR: AddressSanitizer" in line or "runtime error" in line:
            items.append(("C20_c_LookupOutsideTable", last[0] if last else "?", "category %s byte %s: %s" % (last[0], last[1], line.strip()) if last else line))
    rc2, out2 = vlib.tlc("TraceRC.tla", "TraceRC.cfg", env=dict(TRACE=res), workers=1, timeout=600)
    gen, dist = vlib.tlc_stats(out2)
    if "REJECTED" in out2 or rc2 != 0 or gen == 0:
        raise CheckError("TraceRC did not consume the results: " + out2[-2000:])
    for (inp, cl) in _viol_lines(out2):
        items.append((cl, inp.split(":")[0], inp))
    new = report_simple(pid, items, lambda cl, cls: "to_reason_code<%s>(byte): %s" % (cls, cl))
    samples = []
    with open(res) as f:
        for i, line in enumerate(f):
            if i in (0, 163, 2303): samples.append(json.loads(line))
    return dict(name="C20 reason-code tables", states=dist, transitions=gen, violations=new, vectors=2304, exhaustive=True,
                asan_reports=len([i for i in items if i[0] == "C20_c_LookupOutsideTable"]), samples=samples)


# ----------------------------------------------------------------------------- component drivers (C08 allocator, C11 mutex)
def _component(pid, tier, seed, drv, tracespec, model, model_cfgs, name, crash_clause):
    build_pure(drv)
    d = os.path.join(vlib.WORK, "run", drv); shutil.rmtree(d, ignore_errors=True); os.makedirs(d)
    out = dict(name=name, states=0, transitions=0, violations=0, samples=[], runs=[])
    # (1) exhaustive model checking of the component specification
    for cfg in model_cfgs:
        r = run_model(model, cfg, [model], workers=8)
        out["states"] += r["distinct"]; out["transitions"] += r["generated"]
        out["runs"].append({k: r[k] for k in ("cfg", "generated", "distinct", "depth", "violated", "wall", "cached")})
        for inv in r["violated"]:
            out["violations"] += 1
            log("VIOLATION property=%s replay=%s model=%s invariant=%s" % (pid, r["replay"], cfg, inv))
    # (2) the real component driven through exhaustively enumerated + random call sequences, validated by TLC
    res = os.path.join(d, "trace.ndjson")
    rc, o = vlib.sh([os.path.join(vlib.BIN, drv), res, tier, str(seed)], timeout=1200,
                    env=dict(ASAN_OPTIONS="halt_on_error=1:detect_leaks=0"))
    items = []
    m = re.search(r"(\d+) sequences, (\d+) events", o)
    if rc != 0:
        with open(os.path.join(d, "driver.txt"), "w") as f: f.write(o)
        items.append((crash_clause, "driver-crash", "the driver running the real component aborted (rc=%d): %s" % (rc, o[-1500:])))
    else:
        rc2, o2 = vlib.tlc(tracespec + ".tla", tracespec + ".cfg", env=dict(TRACE=res), workers=1, timeout=2400, java_opts="-Xmx8g")
        gen, dist = vlib.tlc_stats(o2)
        out["states"] += dist; out["transitions"] += gen
        inv = re.findall(r"Invariant (\w+) is violated", o2)
        for (where, cl) in _viol_lines(o2): items.append((cl, "trace", "event %s of %s" % (where, res)))
        devs = [l.strip().strip('"').split() for l in o2.splitlines() if l.strip().strip('"').startswith("DEV ")]
        if devs:
            kinds = {}
            for dv in devs: kinds[dv[2]] = kinds.get(dv[2], 0) + 1
            for k, n in sorted(kinds.items()):
                log("CONFORMANCE-DEVIATION property=%s component=%s what=%s count=%d (the real component no longer takes the steps of %s; not a violation by itself)" % (pid, drv, k, n, model))
            out["deviations"] = kinds
        for iv in inv: items.append(("%s_i_%s" % (pid, iv), "trace", "specification invariant %s violated on the recorded trace %s" % (iv, res)))
        if not inv and ("REJECTED" in o2 or rc2 != 0 or gen == 0):
            raise CheckError("%s did not consume the trace: %s" % (tracespec, o2[-2000:]))
        with open(res) as f:
            out["samples"] = [json.loads(next(f)) for _ in range(6)]
    out["sequences"] = int(m.group(1)) if m else 0
    out["vectors"] = out["sequences"]
    out["events"] = int(m.group(2)) if m else 0
    out["violations"] += report_simple(pid, items, lambda cl, cls: "%s: %s" % (name, cl))
    return out


def c08_alloc(pid, tier, seed):
    return _component(pid, tier, seed, "drv_pid", "TracePid", "PidAlloc.tla",
                      ["PidAlloc.cfg"] + (["PidAlloc.thorough.cfg"] if tier == "thorough" else []),
                      "packet_id_allocator (spec/PidAlloc.tla)", "C08_x_AllocatorCrashed")


def c11_mutex(pid, tier, seed):
    return _component(pid, tier, seed, "drv_mutex", "TraceMutex", "AsyncMutex.tla",
                      ["AsyncMutex.cfg", "AsyncMutex.live.cfg"],
                      "async_mutex (spec/AsyncMutex.tla)", "C11_x_MutexCrashed")


# ----------------------------------------------------------------------------- C19 hostile broker bytes
C19_MAP = {"C01_a_SuccessWithoutAck": "C19_c_SuccessWithoutValidAck", "C14_a_SuccessWithoutAck": "C19_c_SuccessWithoutValidAck",
           "C14_b_CodesDiffer": "C19_c_SuccessWithoutValidAck", "C14_b_CodeCount": "C19_c_SuccessWithoutValidAck",
           "C14_c_MalformedAckSurfaced": "C19_c_SuccessWithoutValidAck", "C01_b_HandlerArgsDiffer": "C19_c_SuccessWithoutValidAck",
           "C02_q_RequestNeverCompleted": "C19_d_NoRecoveryAfterHostileBytes", "C05_a_CompletedTwice": "C19_e_CompletedTwice"}
# (C10_b_PacketBeforeConnack is NOT mapped: after hostile bytes the Observer does not know which mutated CONNACKs the
#  library legitimately accepts - mapping it raised four false alarms on the unchanged tree and was withdrawn)


def _run_asan(scripts, trace):
    return vlib.sh([os.path.join(vlib.BIN, "simrun_asan"), scripts, trace], timeout=1800,
                   env=dict(ASAN_OPTIONS="detect_leaks=0:abort_on_error=0", UBSAN_OPTIONS="print_stacktrace=1:halt_on_error=1"))


def _hostile_shard(args):
    d, idx, part = args
    sp = os.path.join(d, "scripts_%03d.ndjson" % idx); tp = os.path.join(d, "trace_%03d.ndjson" % idx)
    with open(sp, "w") as f: f.write("\n".join(part) + "\n")
    rc, out = _run_asan(sp, tp)
    crashes = []
    if rc != 0:
        # isolate the offending scenarios; the others are re-run together
        good = []
        for j, line in enumerate(part):
            one = os.path.join(d, "one_%03d_%d.ndjson" % (idx, j))
            with open(one, "w") as f: f.write(line + "\n")
            rc1, out1 = _run_asan(one, one + ".trace")
            if rc1 != 0:
                m = re.search(r"(ERROR: AddressSanitizer[^\n]*|runtime error[^\n]*|terminate[^\n]*)", out1)
                crashes.append((json.loads(line)["name"], m.group(1) if m else "exit %d" % rc1, one))
            else:
                good.append(line); os.remove(one); os.remove(one + ".trace")
        with open(sp, "w") as f: f.write("\n".join(good) + "\n")
        rc, out = _run_asan(sp, tp)
        if rc != 0: return dict(ok=False, err="hostile shard still crashes after isolation: " + out[-1500:])
    rc2, out2 = vlib.tlc("TraceObserver.tla", "TraceObserver.cfg", env=dict(TRACE=tp), workers=1, timeout=3000, java_opts="-Xmx3g")
    st = vlib.tlc_stats(out2)
    if "REJECTED" in out2 or rc2 != 0 or st[0] == 0:
        return dict(ok=False, err="hostile trace not consumed: " + out2[-2000:])
    viol = []
    for line in out2.splitlines():
        line = line.strip().strip('"')
        if line.startswith("VIOL "):
            p = line.split(); viol.append((int(p[1]), int(p[2]), p[3]))
    m = re.search(r"simrun: (\d+) scenarios, (\d+) events", out)
    return dict(ok=True, viol=viol, crashes=crashes, states=st[0], scripts=sp, trace=tp,
                scen=int(m.group(1)) if m else 0, events=int(m.group(2)) if m else 0)


def c19_stage(pid, tier, seed):
    import concurrent.futures as cf, gen
    os.makedirs(vlib.BIN, exist_ok=True)
    rc, o = vlib.sh("flock %s/build.lock make -C %s/harness -f asan.mk REPO=%s OUT=%s %s/simrun_asan" % (vlib.WORK, vlib.VERIF, vlib.REPO, vlib.BIN, vlib.BIN), timeout=3000)
    if rc != 0:
        log(o[-4000:]); raise CheckError("ASan build of simrun failed")
    key = "hostile-%s-%s-%s-%s" % (tier, seed, vlib.repo_hash(), vlib.machinery_hash())
    cpath = os.path.join(vlib.WORK, "cache", key + ".json")
    if os.path.exists(cpath):
        with open(cpath) as f: res = json.load(f)
    else:
        lines = gen.generate("hostile", seed, 1800 if tier == "quick" else 100000)
        corpus = os.path.join(vlib.VERIF, "corpus", "hostile.ndjson")
        if os.path.exists(corpus):
            with open(corpus) as f: lines += [l.strip() for l in f if l.strip()]
        d = os.path.join(vlib.WORK, "run", "hostile-%s-%s" % (tier, seed)); shutil.rmtree(d, ignore_errors=True); os.makedirs(d)
        per = 120
        jobs = [(d, i, lines[i * per:(i + 1) * per]) for i in range((len(lines) + per - 1) // per)]
        with cf.ThreadPoolExecutor(max_workers=vlib.NCPU) as ex: outs = list(ex.map(_hostile_shard, jobs))
        res = dict(items=[], scen=0, events=0, states=0, sigs={}, samples=[json.loads(lines[0]), json.loads(lines[len(lines) // 2])])
        for o in outs:
            if not o["ok"]: raise CheckError(o["err"])
            res["scen"] += o["scen"]; res["events"] += o["events"]; res["states"] += o["states"]
            for (name, what, one) in o["crashes"]:
                res["items"].append(("C19_m_MemoryErrorOrCrash", name.split("-")[2], "%s: %s (script %s)" % (name, what, one)))
            names = {}
            with open(o["trace"]) as f:
                cur = None
                for line in f:
                    e = json.loads(line)
                    if e["e"] == "reset":
                        cur = e["sc"]; names[cur] = e["name"]; res["sigs"][e["name"]] = []
                    elif e["e"] == "done" and e.get("op") in (10, 11, 12): res["sigs"][names[cur]].append("%d:%s" % (e["op"], e["ec"]))
                    elif e["e"] == "c_pkt" and e.get("type") == "DISCONNECT": res["sigs"][names[cur]].append("D%d" % e.get("rc", 0))
                    elif e["e"] == "attempt": res["sigs"][names[cur]].append("A")
            for (sc, n, cl) in o["viol"]:
                cl2 = cl if cl.startswith("C19_") else C19_MAP.get(cl)
                if cl2: res["items"].append((cl2, names.get(sc, "?").split("-")[2] if sc in names else "?", "%s event %d (%s) trace %s" % (names.get(sc), n, cl, o["trace"])))
        # C19_a: the outcome must not depend on how the byte stream is cut into reads
        groups = {}
        for name, sig in res["sigs"].items():
            base = name.rsplit("-c", 1)[0]
            groups.setdefault(base, {})[name] = tuple(sig)
        for base, g in groups.items():
            if len(set(g.values())) > 1:
                res["items"].append(("C19_a_OutcomeDependsOnChunking", base.split("-")[2], "%s: %s" % (base, g)))
        res["sigs"] = len(res["sigs"])
        with open(cpath, "w") as f: json.dump(res, f)
    new = report_simple(pid, [tuple(x) for x in res["items"]], lambda cl, cls: "hostile broker bytes (%s mutations): %s" % (cls, cl))
    return dict(name="C19 hostile broker bytes under ASan/UBSan", states=res["states"], transitions=res["states"], violations=new,
                vectors=res["scen"], events=res["events"], samples=res["samples"])


def l1_recv(pid, tier, seed):
    """exhaustive TLC runs of the inbound-side model Recv.tla.  MCRecv.lossy.cfg (a delivered write may fail) MUST
    violate CompletedIsDelivered / NoPubrelUnanswered: that is the model-level account of the open findings F5 / F10."""
    out = dict(name="L1 Recv.tla", states=0, transitions=0, violations=0, runs=[], samples=[])
    for cfg in ["MCRecv.cfg"] + (["MCRecv.thorough.cfg"] if tier == "thorough" else []):
        r = run_model("MCRecv.tla", cfg, ["Recv.tla", "MCRecv.tla"], workers=8)
        out["states"] += r["distinct"]; out["transitions"] += r["generated"]
        out["runs"].append({k: r[k] for k in ("cfg", "generated", "distinct", "depth", "violated", "wall", "cached")})
        for inv in r["violated"]:
            out["violations"] += 1
            log("VIOLATION property=%s replay=%s model=%s invariant=%s" % (pid, r["replay"], cfg, inv))
    r = run_model("MCRecv.tla", "MCRecv.lossy.cfg", ["Recv.tla", "MCRecv.tla"], workers=8)
    out["runs"].append({k: r[k] for k in ("cfg", "generated", "distinct", "depth", "violated", "wall", "cached")})
    if not r["violated"]:
        raise CheckError("model self-test: MCRecv.lossy.cfg no longer shows F5/F10 (update known_findings.json and the model)")
    # must fail: the code before fix F15 (PUBREL waits of a lost session re-armed by resend() and not dropped again), the
    # code before fix F17 (two operations for one exchange after a PUBREC lost in a send buffer), and the full set of
    # invariants under silent write loss (the open finding F16: an unsolicited PUBREL is never answered)
    for bad, what in (("MCRecv.f15.cfg", "stale PUBREL wait of a lost session (F15)"),
                      ("MCRecv.f17.cfg", "QoS 2 message delivered twice after a lost PUBREC (F17)"),
                      ("MCRecv.silent.cfg", "unsolicited PUBREL never answered (F16)")):
        r = run_model("MCRecv.tla", bad, ["Recv.tla", "MCRecv.tla"], workers=8)
        out["runs"].append({k: r[k] for k in ("cfg", "generated", "distinct", "depth", "violated", "wall", "cached")})
        if not r["violated"]:
            raise CheckError("model self-test: %s - %s - was NOT caught by the model invariants" % (bad, what))
    # must hold: the repaired code under silent write loss (apart from F16), also with "the old wait wins" (seed r3-c04)
    for good in ("MCRecv.silentok.cfg", "MCRecv.keepold.cfg"):
        r = run_model("MCRecv.tla", good, ["Recv.tla", "MCRecv.tla"], workers=8)
        out["states"] += r["distinct"]; out["transitions"] += r["generated"]
        out["runs"].append({k: r[k] for k in ("cfg", "generated", "distinct", "depth", "violated", "wall", "cached")})
        for inv in r["violated"]:
            out["violations"] += 1
            log("VIOLATION property=%s replay=%s model=%s invariant=%s" % (pid, r["replay"], good, inv))
    out["samples"].append(dict(model="MCRecv.tla", note="inbound QoS 1/2 exchanges, broker retransmission, session loss; one action per handler body"))
    return out


def l1_session(pid, tier, seed):
    """exhaustive TLC run of Session.tla; Session.seed.cfg (decision taken when the subscribe is initiated) and
    Session.seed2.cfg (on_connack only clears the Session Present flag: a refused attempt leaves a stale 0) MUST fail"""
    out = dict(name="L1 Session.tla", states=0, transitions=0, violations=0, runs=[], samples=[])
    r = run_model("Session.tla", "Session.cfg", ["Session.tla"], workers=4)
    out["states"] += r["distinct"]; out["transitions"] += r["generated"]
    out["runs"].append({k: r[k] for k in ("cfg", "generated", "distinct", "depth", "violated", "wall", "cached")})
    for inv in r["violated"]:
        out["violations"] += 1
        log("VIOLATION property=%s replay=%s model=Session.cfg invariant=%s" % (pid, r["replay"], inv))
    for bad in ("Session.seed.cfg", "Session.seed2.cfg"):
        r = run_model("Session.tla", bad, ["Session.tla"], workers=4)
        out["runs"].append({k: r[k] for k in ("cfg", "generated", "distinct", "depth", "violated", "wall", "cached")})
        if not r["violated"]:
            raise CheckError("model self-test: %s was NOT caught by the model invariants" % bad)
    out["samples"].append(dict(model="Session.tla", note="CONNACK(sp) / refused attempts x update_session_state from both paths x subscribes in flight"))
    return out


def l1_lifecycle(pid, tier, seed):
    """exhaustive TLC run of Lifecycle.tla (start / cancel / async_disconnect vs. requests in every phase);
    Lifecycle.f13.cfg (code before the fix of F13) MUST violate Drained."""
    out = dict(name="L1 Lifecycle.tla", states=0, transitions=0, violations=0, runs=[], samples=[])
    r = run_model("Lifecycle.tla", "Lifecycle.cfg", ["Lifecycle.tla"], workers=8)
    out["states"] += r["distinct"]; out["transitions"] += r["generated"]
    out["runs"].append({k: r[k] for k in ("cfg", "generated", "distinct", "depth", "violated", "wall", "cached")})
    for inv in r["violated"]:
        out["violations"] += 1
        log("VIOLATION property=%s replay=%s model=Lifecycle.cfg invariant=%s" % (pid, r["replay"], inv))
    r = run_model("Lifecycle.tla", "Lifecycle.f13.cfg", ["Lifecycle.tla"], workers=8)
    out["runs"].append({k: r[k] for k in ("cfg", "generated", "distinct", "depth", "violated", "wall", "cached")})
    if not r["violated"]:
        raise CheckError("model self-test: Lifecycle.f13.cfg (defect F13) was NOT caught by the model invariants")
    out["samples"].append(dict(model="Lifecycle.tla", note="3 publishes x start/cancel/disconnect/timer/ack in every order"))
    return out


def l1_conn(pid, tier, seed):
    """exhaustive TLC run of Conn.tla (users of the stream, conn_mtx, reconnect_op, endpoint rotation, backoff, run / cancel /
    async_disconnect in every order); Conn.nostale.cfg (reconnect_op without its stale-stream test) MUST violate
    NoReconnectWhileHealthy.  spec/TraceConn.tla folds the same transition relation over every recorded trace."""
    out = dict(name="L1 Conn.tla", states=0, transitions=0, violations=0, runs=[], samples=[])
    for cfg in ["Conn.cfg"] + (["Conn.thorough.cfg"] if tier == "thorough" else []):
        r = run_model("Conn.tla", cfg, ["Conn.tla"], workers=8)
        out["states"] += r["distinct"]; out["transitions"] += r["generated"]
        out["runs"].append({k: r[k] for k in ("cfg", "generated", "distinct", "depth", "violated", "wall", "cached")})
        for inv in r["violated"]:
            out["violations"] += 1
            log("VIOLATION property=%s replay=%s model=%s invariant=%s" % (pid, r["replay"], cfg, inv))
    r = run_model("Conn.tla", "Conn.nostale.cfg", ["Conn.tla"], workers=8)
    out["runs"].append({k: r[k] for k in ("cfg", "generated", "distinct", "depth", "violated", "wall", "cached")})
    if not r["violated"]:
        raise CheckError("model self-test: Conn.nostale.cfg (no stale-stream test) was NOT caught by the model invariants")
    out["samples"].append(dict(model="Conn.tla", note="2-3 brokers x 2 endpoints, reader and writer, losses, failures, run/cancel/disconnect"))
    return out


def l1_keepalive(pid, tier, seed):
    """exhaustive TLC run of the timed model KeepAlive.tla (ping interval restarted per connection, write latency,
    bounded reads, keep-alive 0, Server Keep Alive changing between connections); KeepAlive.seed.cfg (interval not
    restarted when a connection is established = seeded change c12) MUST violate PingOnTime.
    spec/TraceKeepAlive.tla follows the same rules over every recorded trace."""
    out = dict(name="L1 KeepAlive.tla", states=0, transitions=0, violations=0, runs=[], samples=[])
    for cfg in ["KeepAlive.cfg"] + (["KeepAlive.thorough.cfg"] if tier == "thorough" else []):
        r = run_model("KeepAlive.tla", cfg, ["KeepAlive.tla"], workers=8)
        out["states"] += r["distinct"]; out["transitions"] += r["generated"]
        out["runs"].append({k: r[k] for k in ("cfg", "generated", "distinct", "depth", "violated", "wall", "cached")})
        for inv in r["violated"]:
            out["violations"] += 1
            log("VIOLATION property=%s replay=%s model=%s invariant=%s" % (pid, r["replay"], cfg, inv))
    r = run_model("KeepAlive.tla", "KeepAlive.seed.cfg", ["KeepAlive.tla"], workers=8)
    out["runs"].append({k: r[k] for k in ("cfg", "generated", "distinct", "depth", "violated", "wall", "cached")})
    if not r["violated"]:
        raise CheckError("model self-test: KeepAlive.seed.cfg (interval not restarted per connection) was NOT caught by the model invariants")
    out["samples"].append(dict(model="KeepAlive.tla", note="keep-alive 0/1/2 (thorough 0..5) s, latency 0..1 (2), 16 (40) half-seconds"))
    return out


# ----------------------------------------------------------------------------- ASan pass over conformant families
def asan_pass(families, sizes=(500, 6000)):
    """returns a stage running the given scenario families on the client built with ASan+UBSan: a sanitizer report, a crash
    or an uncaught exception of the real client in a scenario a conformant environment produces is a violation."""
    def stage(pid, tier, seed):
        import concurrent.futures as cf, gen
        rc, o = vlib.sh("flock %s/build.lock make -C %s/harness -f asan.mk REPO=%s OUT=%s %s/simrun_asan" % (vlib.WORK, vlib.VERIF, vlib.REPO, vlib.BIN, vlib.BIN), timeout=3000)
        if rc != 0:
            log(o[-4000:]); raise CheckError("ASan build of simrun failed")
        out = dict(name="ASan/UBSan pass over %s" % ",".join(families), states=0, transitions=0, violations=0, vectors=0, samples=[])
        items = []
        for fam in families:
            key = "asan-%s-%s-%s-%s-%s" % (fam, tier, seed, vlib.repo_hash(), vlib.machinery_hash())
            cpath = os.path.join(vlib.WORK, "cache", key + ".json")
            if os.path.exists(cpath):
                with open(cpath) as f: res = json.load(f)
            else:
                lines = gen.generate(fam, seed + 1000, sizes[0] if tier == "quick" else sizes[1])
                d = os.path.join(vlib.WORK, "run", "asan-%s-%s-%s" % (fam, tier, seed)); shutil.rmtree(d, ignore_errors=True); os.makedirs(d)
                per = 150
                parts = [lines[i:i + per] for i in range(0, len(lines), per)]
                def run(ix):
                    sp = os.path.join(d, "s_%03d.ndjson" % ix); tp = os.path.join(d, "t_%03d.ndjson" % ix)
                    with open(sp, "w") as f: f.write("\n".join(parts[ix]) + "\n")
                    rc, o = _run_asan(sp, tp)
                    bad = []
                    if rc != 0:
                        for j, line in enumerate(parts[ix]):
                            one = os.path.join(d, "one_%03d_%d.ndjson" % (ix, j))
                            with open(one, "w") as f: f.write(line + "\n")
                            rc1, o1 = _run_asan(one, one + ".trace")
                            if rc1 != 0:
                                m = re.search(r"(ERROR: AddressSanitizer[^\n]*|runtime error[^\n]*|terminate[^\n]*)", o1)
                                bad.append([json.loads(line)["name"], m.group(1) if m else "exit %d" % rc1, one])
                            else:
                                os.remove(one); os.remove(one + ".trace")
                    exc = 0
                    if os.path.exists(tp):
                        with open(tp) as f: exc = sum(1 for l in f if '"e":"exception"' in l or '"e":"hang"' in l)
                    return bad, exc, len(parts[ix])
                with cf.ThreadPoolExecutor(max_workers=vlib.NCPU) as ex: rs = list(ex.map(run, range(len(parts))))
                res = dict(bad=[b for r in rs for b in r[0]], exc=sum(r[1] for r in rs), n=sum(r[2] for r in rs), sample=json.loads(lines[0]))
                with open(cpath, "w") as f: json.dump(res, f)
            out["vectors"] += res["n"]; out["samples"].append(res["sample"])
            for (name, what, one) in res["bad"]:
                items.append(("%s_m_MemoryErrorOrCrash" % pid, fam, "%s: %s (script %s)" % (name, what, one)))
        out["violations"] = report_simple(pid, items, lambda cl, cls: "sanitizer report / crash of the real client in family %s" % cls)
        return out
    return stage
