#!/bin/bash
# trymut.sh <name> <patch-file | -e 'python-replace-expr'> [seed] [n]
# Applies a source mutation to a scratch COPY of /repo/include (outside /repo and /verif), builds simrun against it,
# runs the six scenario families and summarises which clauses fire.  The copy is removed afterwards.
set -e
NAME=$1; PATCH=$2; S=${3:-1}; N=${4:-300}
SC=/tmp/mut_$NAME; rm -rf $SC; mkdir -p $SC/repo $SC/bin
cp -r /repo/include $SC/repo/
( cd $SC/repo && patch -p1 -s < $PATCH ) || { echo "patch failed"; exit 2; }
make -s -C /verif/harness REPO=$SC/repo OUT=$SC/bin $SC/bin/simrun_gen 2>&1 | grep -E "error" -A3 | head -20
DEVLOOP_DIR=$SC/run /verif/tools/devloop.sh $S $N $SC/bin/simrun_gen 2>&1 | grep -vE "^Model|Progress|states generated"
rm -rf $SC
