#!/usr/bin/env python3
"""Property C16 - request validation accepts exactly the well-formed MQTT inputs.

stage(pid, tier, seed):
  1. builds harness/vec_utf8.cpp (make target _work/bin/vec_utf8 only),
  2. runs it: it enumerates the input space of the tier and records what the REAL validators of the
     library answer (ndjson, one line per input, sharded),
  3. runs TLC on every shard: spec/TraceUtf8.tla judges each line against the reference
     spec/Utf8Topic.tla and prints `VIOL <id> <clause>` per disagreement; its post-condition
     demands that every line was consumed,
  4. gives every disagreement a SIGNATURE CLASS (which kind of input it is, see classify()),
  5. (clause, class) matching an open entry of known_findings.json -> KNOWN-FINDING line, not counted;
     everything else -> replay directory + VIOLATION line, counted in "violations".

Known-finding entries understood here (property "C16", status "open"):
  "clause":    the violated clause, or a prefix of it ("C16_" = any clause of the property), or "*"
  "signature": {"class": "<class>" | ["<class>", ...] | "*"}

standalone:  python3 /verif/tools/stage_c16.py [quick|thorough] [seed]
             python3 /verif/tools/stage_c16.py --replay /verif/_work/replay/C16-<clause>-<class>
"""
import concurrent.futures as cf
import hashlib, json, os, re, shutil, sys, time

sys.path.insert(0, os.path.dirname(os.path.abspath(__file__)))
import vlib
from vlib import log, CheckError

HERE_FILES = [os.path.join(vlib.VERIF, p) for p in (
    "spec/Utf8Topic.tla", "spec/TraceUtf8.tla", "spec/TraceUtf8.cfg", "harness/vec_utf8.cpp", "tools/stage_c16.py")]
MAX_EXAMPLES = 200          # offending vectors kept per (clause, class)
# One JVM per shard, NCPU shards at once: keep each JVM's helper threads few.  Short runs (quick) are
# dominated by JIT warm-up, C1 only is 3-6x faster there (measured: 16 shards 20 s -> 3.3 s).
JAVA_OPTS = dict(quick="-Xmx2g -Xss16m -XX:ParallelGCThreads=2 -XX:TieredStopAtLevel=1",
                 thorough="-Xmx2g -Xss16m -XX:ParallelGCThreads=2 -XX:CICompilerCount=2")


# ------------------------------------------------------------------------------------------ signature classes
def first_utf8_error(s):
    """class of the first ill-formed subsequence of s under strict UTF-8 (Unicode Table 3-7), None if well-formed.
    Up to that position a strict decoder and the library's decoder consume the same bytes, so this is the
    input feature that decides the library's answer."""
    i, n = 0, len(s)
    while i < n:
        x = s[i]
        if x < 0x80:
            i += 1; continue
        if x < 0xC0: return "stray-continuation-byte"
        if x >= 0xF8: return "5+byte-lead"
        need = 1 if x < 0xE0 else 2 if x < 0xF0 else 3
        if i + need > n - 1:
            return "truncated-sequence"
        tail = s[i + 1:i + 1 + need]
        if any(t < 0x80 or t > 0xBF for t in tail): return "unchecked-continuation-byte"
        if need == 1:
            if x < 0xC2: return "overlong-2byte"
        elif need == 2:
            cp = ((x & 0x0F) << 12) | ((tail[0] & 0x3F) << 6) | (tail[1] & 0x3F)
            if cp < 0x800: return "overlong-3byte"
            if 0xD800 <= cp <= 0xDFFF: return "surrogate"
        else:
            cp = ((x & 0x07) << 18) | ((tail[0] & 0x3F) << 12) | ((tail[1] & 0x3F) << 6) | (tail[2] & 0x3F)
            if cp < 0x10000: return "overlong-4byte"
            if cp > 0x10FFFF: return "above-10FFFF"
        i += 1 + need
    return None


def _is_control(c): return c <= 0x1F or 0x7F <= c <= 0x9F
def _is_nonchar(c): return 0xFDD0 <= c <= 0xFDEF or (c & 0xFFFE) == 0xFFFE


def classify(s, clause):
    """signature class of a disagreement on input s (bytes)"""
    err = first_utf8_error(s)
    if err: return err
    cps = [ord(ch) for ch in s.decode("utf-8")]
    if clause.endswith("RejectedButValid") or clause.endswith("WrongRejection"):
        if any((c & 0xFF) >= 0xFE and not _is_nonchar(c) and not _is_control(c) for c in cps):
            return "nonchar-mask-low-byte-FE-FF"
        return "wellformed-unexplained"
    # accepted although MQTT forbids it, input is well-formed UTF-8
    if len(s) > 65535: return "wellformed-too-long"
    if 0 in cps: return "wellformed-nul"
    if any(_is_control(c) for c in cps): return "wellformed-control-char"
    if any(_is_nonchar(c) for c in cps): return "wellformed-noncharacter"
    if len(s) == 0: return "wellformed-empty"
    return "wellformed-topic-syntax"


def vec_bytes(e):
    if "rep" in e: return bytes(e["pre"]) + bytes([e["rep"]]) * e["n"] + bytes(e["post"])
    return bytes(e["b"])


def _size_key(line):
    e = json.loads(line)
    if "rep" in e: return (len(e["pre"]) + e["n"] + len(e["post"]), [], e["id"])
    return (len(e["b"]), e["b"], e["id"])


def show(e):
    """compact human readable form of a vector line"""
    if "b" not in e and "rep" not in e: return dict(e)
    if "rep" in e:
        txt = "%s + %d x %02X + %s" % (bytes(e["pre"]).hex(" ").upper() or "''", e["n"], e["rep"], bytes(e["post"]).hex(" ").upper() or "''")
    else:
        txt = bytes(e["b"]).hex(" ").upper() or "''"
    return dict(id=e["id"], bytes=txt, utf8=e.get("utf8"), name=e.get("name"), alias_name=e.get("alias_name"),
                filter=e.get("filter"), shared=e.get("shared"), shared_nowild=e.get("shared_nowild"))


# ------------------------------------------------------------------------------------------ one shard
def _batch_size():
    with open(os.path.join(vlib.SPEC, "TraceUtf8.tla")) as f:
        return int(re.search(r"^Batch\s*==\s*(\d+)", f.read(), re.M).group(1))


BATCH = _batch_size()       # lines judged per TLC state, for the all-lines-consumed cross-check


def _shard(args):
    """TLC on one result file + classification of its VIOL lines (runs in a worker process)"""
    trace, tlcout, heap = args          # heap: java options
    nlines = 0
    with open(trace) as f:
        for _ in f: nlines += 1
    try:
        rc, out = vlib.tlc("TraceUtf8.tla", "TraceUtf8.cfg", env=dict(TRACE=trace), workers=1, timeout=3000,
                           java_opts=heap, extra="-noGenerateSpecTE")
    except CheckError as e:
        return dict(ok=False, err=str(e))
    with open(tlcout, "w") as f:        # TLC's output; of very many VIOL lines only the first 20000 are kept
        kept = 0
        for line in out.splitlines(True):
            if "VIOL " in line:
                kept += 1
                if kept > 20000: continue
            f.write(line)
    gen, dist = vlib.tlc_stats(out)
    viol = []
    for line in out.splitlines():
        line = line.strip().strip('"')
        if line.startswith("VIOL "):
            p = line.split()
            viol.append((int(p[1]), p[2]))
    batches = (nlines + BATCH - 1) // BATCH
    consumed = (rc == 0 and "REJECTED" not in out and "No error has been found" in out and dist == batches + 1)
    if not consumed:
        tail = "\n".join(l for l in out.splitlines() if "VIOL " not in l)[-3000:]
        return dict(ok=False, err="TraceUtf8 did not consume %s (rc=%d, %d lines, %d states): %s" % (trace, rc, nlines, dist, tail))
    groups, selftest = {}, []
    if viol:
        want = set(i for i, _ in viol)
        raw = {}
        with open(trace) as f:
            for line in f:
                m = re.match(r'\{"id":(\d+),', line)
                if m and int(m.group(1)) in want: raw[int(m.group(1))] = line
        cache = {}
        for (i, clause) in viol:
            if clause.startswith("SELFTEST"):
                selftest.append((clause, raw.get(i, "?").strip())); continue
            if clause.startswith("C16_c"):                     # the constants line, not a string
                key = clause + "|library-constant"
            else:
                if i not in cache: cache[i] = vec_bytes(json.loads(raw[i]))
                key = clause + "|" + classify(cache[i], clause)
            g = groups.setdefault(key, dict(count=0, lines=[]))
            g["count"] += 1
            if len(g["lines"]) < MAX_EXAMPLES: g["lines"].append(raw[i])
    return dict(ok=True, lines=nlines, generated=gen, distinct=dist, nviol=len(viol), groups=groups, selftest=selftest[:5])


# ------------------------------------------------------------------------------------------ driver + TLC
def _files_hash():
    h = hashlib.sha256()
    for p in HERE_FILES:
        with open(p, "rb") as f: h.update(f.read())
    return h.hexdigest()[:16]


def run_vectors(tier, seed):
    """build, enumerate, judge; result (without findings classification) cached per tree state"""
    key = "c16-%s-%s-%s-%s" % (tier, seed, vlib.repo_hash(), _files_hash())
    cdir = os.path.join(vlib.WORK, "cache"); os.makedirs(cdir, exist_ok=True)
    cpath = os.path.join(cdir, key + ".json")
    if os.path.exists(cpath):
        with open(cpath) as f: r = json.load(f)
        r["cached"] = True
        return r
    t0 = time.time()
    bt = vlib.build(targets=("vec_utf8",))
    d = os.path.join(vlib.WORK, "run", "C16-%s-%s" % (tier, seed))
    shutil.rmtree(d, ignore_errors=True); os.makedirs(d)
    nshards = vlib.NCPU
    t1 = time.time()
    rc, out = vlib.sh([os.path.join(vlib.BIN, "vec_utf8"), tier, str(seed), os.path.join(d, "vec.ndjson"), str(nshards)], timeout=1800)
    m = re.search(r"vec_utf8: (\d+) vectors", out)
    if rc != 0 or not m:
        raise CheckError("vec_utf8 failed (rc=%d): %s" % (rc, out[-2000:]))
    nvec = int(m.group(1))
    t2 = time.time()
    jobs = []
    for i in range(nshards):
        p = os.path.join(d, "vec.ndjson.%02d" % i) if nshards > 1 else os.path.join(d, "vec.ndjson")
        jobs.append((p, os.path.join(d, "tlc_%02d.txt" % i), JAVA_OPTS[tier]))
    with cf.ProcessPoolExecutor(max_workers=nshards) as ex:
        outs = list(ex.map(_shard, jobs))
    r = dict(vectors=nvec, lines=0, states=0, transitions=0, nviol=0, groups={}, dir=d, cached=False,
             build_s=round(bt, 1), enumerate_s=round(t2 - t1, 1))
    for o in outs:
        if not o["ok"]: raise CheckError("C16: " + o["err"])
        if o["selftest"]:
            raise CheckError("C16: the reference failed its own cross-check: %s" % (o["selftest"],))
        r["lines"] += o["lines"]; r["states"] += o["distinct"]; r["transitions"] += o["generated"]; r["nviol"] += o["nviol"]
        for k, g in o["groups"].items():
            t = r["groups"].setdefault(k, dict(count=0, lines=[]))
            t["count"] += g["count"]
            t["lines"] = (t["lines"] + g["lines"])[:MAX_EXAMPLES]
    if r["lines"] != nvec:
        raise CheckError("C16: %d vectors written, %d lines judged" % (nvec, r["lines"]))
    for g in r["groups"].values():
        g["lines"].sort(key=_size_key)                      # shortest inputs first
    r["tlc_s"] = round(time.time() - t2, 1)
    r["wall_s"] = round(time.time() - t0, 1)
    # a few recorded lines as samples
    with open(jobs[0][0]) as f:
        head = [json.loads(next(f)) for _ in range(40)]
    r["samples"] = [show(e) for e in head if e.get("g") != "const"][5:8]
    with open(cpath, "w") as f: json.dump(r, f)
    return r


# ------------------------------------------------------------------------------------------ findings
def _match(k, clause, cls):
    kc = k.get("clause", "")
    if not (kc == "*" or clause == kc or (kc and clause.startswith(kc))): return False
    sc = (k.get("signature") or {}).get("class")
    if sc is None: return False
    if isinstance(sc, str): return sc == "*" or sc == cls
    return cls in sc


def report(pid, groups, tag=""):
    """prints KNOWN-FINDING / VIOLATION lines; returns (#new violations, #known occurrences, detail)"""
    known = [k for k in vlib.load_findings() if k.get("property") == pid and k.get("status") == "open"]
    seen, new, detail = {}, 0, []
    rdir = os.path.join(vlib.WORK, "replay")
    if not tag and os.path.isdir(rdir):          # replay directories of earlier runs are stale now
        for fn in os.listdir(rdir):
            if fn.startswith(pid + "-" + pid + "_") and not fn.endswith("-replayed"):
                shutil.rmtree(os.path.join(rdir, fn), ignore_errors=True)
    for key in sorted(groups):
        clause, cls = key.split("|")
        g = groups[key]
        k = next((k for k in known if _match(k, clause, cls)), None)
        ex = show(json.loads(g["lines"][0]))
        detail.append(dict(clause=clause, cls=cls, count=g["count"], known=k["id"] if k else None, example=ex))
        if k:
            s = seen.setdefault(k["id"], [k, 0, set()]); s[1] += g["count"]; s[2].add(cls)
            continue
        d = os.path.join(vlib.WORK, "replay", "%s-%s-%s%s" % (pid, clause, cls, tag))
        shutil.rmtree(d, ignore_errors=True); os.makedirs(d)
        with open(os.path.join(d, "vectors.ndjson"), "w") as f: f.writelines(g["lines"])
        with open(os.path.join(d, "note.txt"), "w") as f:
            f.write("property %s clause %s, input class %s: %d input(s) on which the library and spec/Utf8Topic.tla disagree\n"
                    "(first %d kept in vectors.ndjson with the library's answers at the time of the run).\n"
                    "first: %s\n"
                    "re-execute on the current tree:  python3 /verif/tools/stage_c16.py --replay %s\n"
                    % (pid, clause, cls, g["count"], len(g["lines"]), json.dumps(ex), d))
        log("VIOLATION property=%s replay=%s clause=%s class=%s" % (pid, d, clause, cls))
        new += g["count"]
    nknown = 0
    for kid, (k, cnt, classes) in sorted(seen.items()):
        log("KNOWN-FINDING: property=%s %s: %s [%d occurrence(s)]" % (pid, k["id"], k["what"], cnt))
        nknown += cnt
    return new, nknown, detail


def stage(pid, tier, seed):
    tier = tier if tier in ("quick", "thorough") else "quick"
    r = run_vectors(tier, seed)
    new, nknown, detail = report(pid, r["groups"])
    worst = sorted(detail, key=lambda x: (x["known"] is not None, -x["count"]))
    return dict(name="C16 validators vs Utf8Topic.tla", states=r["states"], transitions=r["transitions"],
                violations=new, known_occurrences=nknown, vectors=r["vectors"], disagreements=r["nviol"],
                classes=[{k: x[k] for k in ("clause", "cls", "count", "known")} for x in detail],
                samples=r["samples"] + [dict(x["example"], clause=x["clause"], cls=x["cls"]) for x in worst[:3]],
                wall_s=r["wall_s"], build_s=r["build_s"], enumerate_s=r["enumerate_s"], tlc_s=r["tlc_s"],
                cached=r["cached"], dir=r["dir"],
                rule="all strings of 1 and 2 bytes, all strings over a 41-byte boundary alphabet up to length %d, every range edge +-1 in every encoding "
                     "length, topic/$share structure strings, length edges 65534..65537, seeded random strings%s"
                     % (4 if tier == "thorough" else 3, ", all 1114112 code points, all over-long forms, 3-byte strings with one free position restricted to the alphabet" if tier == "thorough" else ""))


def replay(pid, path):
    """re-executes the vectors of a replay directory on the current tree; returns number of new violations"""
    src = os.path.join(path, "vectors.ndjson")
    if not os.path.exists(src): raise CheckError("no vectors.ndjson in " + path)
    vlib.build(targets=("vec_utf8",))
    d = os.path.join(vlib.WORK, "run", "C16-replay-%d" % os.getpid())
    shutil.rmtree(d, ignore_errors=True); os.makedirs(d)
    out = os.path.join(d, "vec.ndjson")
    rc, txt = vlib.sh([os.path.join(vlib.BIN, "vec_utf8"), "replay", src, out], timeout=600)
    if rc != 0: raise CheckError("vec_utf8 replay failed: " + txt[-2000:])
    o = _shard((out, os.path.join(d, "tlc.txt"), JAVA_OPTS["quick"]))
    if not o["ok"]: raise CheckError("C16 replay: " + o["err"])
    if o["selftest"]: raise CheckError("C16 replay: reference cross-check failed: %s" % (o["selftest"],))
    new, nknown, _ = report(pid, o["groups"], tag="-replayed")
    log("C16 replay: %d vector(s) re-executed, %d disagreement(s), %d new" % (o["lines"], o["nviol"], new))
    return new


if __name__ == "__main__":
    try:
        if len(sys.argv) > 2 and sys.argv[1] == "--replay":
            sys.exit(1 if replay("C16", sys.argv[2]) else 0)
        tier = sys.argv[1] if len(sys.argv) > 1 else "quick"
        seed = int(sys.argv[2]) if len(sys.argv) > 2 else int(os.environ.get("VERIF_SEED", "1"))
        res = stage("C16", tier, seed)
        print(json.dumps(res, indent=1))
        sys.exit(1 if res["violations"] else 0)
    except CheckError as e:
        log("CHECK-ERROR", e)
        sys.exit(2)
