#!/bin/bash
# dev helper: generate N scenarios per family with seed S, run them, validate with TLC, summarise clause hits
S=${1:-1}; N=${2:-200}; BIN=${3:-/verif/_work/bin/simrun_gen}
D=${DEVLOOP_DIR:-/tmp/t}; mkdir -p $D
FAMS=${FAMS:-"send recv lifecycle connect caps keepalive crash session"}
make -s -C /verif/harness -j2 > /dev/null 2>&1; cd /verif/spec
for f in $FAMS; do
  ( python3 /verif/tools/gen.py $f $S $N > $D/s_$f.ndjson
    $BIN $D/s_$f.ndjson $D/t_$f.ndjson 2> $D/r_$f.txt
    rm -rf $D/md_$f
    TRACE=$D/t_$f.ndjson timeout 900 tlc -workers 1 -metadir $D/md_$f -config TraceObserver.cfg TraceObserver.tla > $D/o_$f.txt 2>&1
    grep -E '^\{"e":"(reset|cfg|call|cancel_all|destroy|cancel_op|resolve|resolve_end|attempt|attempt_end|fire)"' $D/t_$f.ndjson > $D/tc_$f.ndjson
    TRACE=$D/tc_$f.ndjson timeout 900 tlc -workers 1 -metadir $D/mdc_$f -config TraceConn.cfg TraceConn.tla > $D/oc_$f.txt 2>&1
    grep -E '^\{"e":"(reset|cfg|c_write_end)"|^\{"e":"c_pkt".*"type":"PINGREQ"|^\{"e":"b_send".*"type":"CONNACK"|^\{"e":"h".*update_session' $D/t_$f.ndjson > $D/tk_$f.ndjson
    TRACE=$D/tk_$f.ndjson timeout 900 tlc -workers 1 -metadir $D/mdk_$f -config TraceKeepAlive.cfg TraceKeepAlive.tla > $D/ok_$f.txt 2>&1 ) &
done
wait
for f in $FAMS; do
  echo "== $f: $(cat $D/r_$f.txt | tr '\n' ' ') $(grep -E 'states generated' $D/o_$f.txt | cut -d' ' -f1-3)"
  grep -E "REJECT|rror|xception" $D/o_$f.txt | head -5
  grep -E "REJECT|Error:" $D/oc_$f.txt | head -3
  echo "   conformance deviations (Conn.tla): $(grep -c '"DEV ' $D/oc_$f.txt)  (KeepAlive.tla): $(grep -c '"DEV ' $D/ok_$f.txt)"
  grep -E "REJECT|Error:" $D/ok_$f.txt | head -3
  grep "VIOL " $D/o_$f.txt | tr -d '"' | cut -d' ' -f4 | sort | uniq -c | sort -rn | head -20
done
