#!/usr/bin/env python3
"""show.py <trace.ndjson> <sc> [n] [ctx] : print the events of scenario sc (around event n)"""
import sys, json
tr, sc = sys.argv[1], int(sys.argv[2])
n = int(sys.argv[3]) if len(sys.argv) > 3 else None
ctx = int(sys.argv[4]) if len(sys.argv) > 4 else 25
cur = None
for line in open(tr):
    e = json.loads(line)
    if e["e"] == "reset": cur = e["sc"]
    if cur != sc: continue
    if n is None or abs(e["n"] - n) <= ctx or e["e"] in ("reset",):
        ev = e.pop("e"); nn = e.pop("n"); t = e.pop("t")
        mark = ">>" if nn == n else "  "
        print(mark, nn, "t=%d" % t, ev, " ".join("%s=%s" % (k, json.dumps(v)) for k, v in e.items() if v not in ("", [], None)))
