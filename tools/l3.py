#!/usr/bin/env python3
"""Model-guided scenarios (L3): TLC enumerates the environment histories of the implementation-shaped model
Client.tla (MCClient.gen*.cfg: every reachable quiescent state with all requests done prints the history `hist`
that led to it) and this module turns each history into a scenario script for the real client.  The scripts are
cached on the specification text (they do not depend on /repo)."""
import hashlib, json, os, re
import vlib

KINDS = {"K_121": ["pub1", "pub2", "pub1"], "K_1s2": ["pub1", "sub", "pub2"], "K_0121": ["pub0", "pub1", "pub2", "pub1"],
         "K_2210": ["pub2", "pub2", "pub1", "pub0"], "K_111": ["pub1", "pub1", "pub1"], "K_12": ["pub1", "pub2"], "K_u1s": ["unsub", "pub1", "sub"]}
CFGS = {"quick": ["MCClient.gen.cfg", "MCClient.gen.K_1s2.cfg", "MCClient.gen.K_0121.cfg", "MCClient.gen.K_u1s.cfg"],
        "thorough": ["MCClient.gen.cfg", "MCClient.gen.K_1s2.cfg", "MCClient.gen.K_0121.cfg", "MCClient.gen.K_u1s.cfg", "MCClient.gen.K_2210.cfg", "MCClient.gen.f2.cfg"]}


def _kinds_of(cfg):
    with open(os.path.join(vlib.SPEC, cfg)) as f: t = f.read()
    m = re.search(r"KindOf <- (\w+)", t)
    return KINDS[m.group(1)]


def to_script(name, hist, kinds):
    rms = [h["rm"] for h in hist if h["op"] == "connect"]
    # one broker per connection of the history: the list never wraps around, so no back-off pause separates the
    # model's "connect" steps
    steps = [dict(op="cfg", hosts=max(2, len(rms)), ka=0, tseed=5)]
    for rm in rms:
        steps.append(dict(op="connack", sp=-1, props=[] if rm == 65535 else [[33, rm]]))
    # the client is running from the start; the network lets a connection through only at the model's connect step
    steps += [dict(op="hold"), dict(op="hold", kinds=["PUBREL"]), dict(op="set", auto_connect=0, auto_write=0), dict(op="run", id=1), dict(op="recv", id=2, loop=1)]
    for h in hist:
        o = h["op"]
        if o == "connect":
            steps += [dict(op="conn_ok"), dict(op="wend", ec="ok")]       # TCP accept, then the CONNECT write goes through
        elif o == "call":
            k = kinds[h["id"] - 1]
            if k in ("sub", "unsub"): steps.append(dict(op=k, id=10 + h["id"], topics=["l3/%d" % h["id"]]))
            else: steps.append(dict(op="pub", id=10 + h["id"], qos=int(k[3]), msg="m%d" % h["id"]))
        elif o == "cancel_op":
            steps.append(dict(op="cancel_op", id=10 + h["id"], type="total"))
        elif o == "wdeliver":
            steps.append(dict(op="wdeliver"))
        elif o == "wend":
            steps.append(dict(op="wend", ec="ok"))
        elif o == "ack":
            d = dict(op="ack", i=h["i"])
            if h.get("rc"): d["rc"] = h["rc"]
            d["props"] = [[31, "l3-%d" % len(steps)]]
            steps.append(d)
        elif o == "fault":
            steps.append(dict(op="fault", ec="reset"))
        # "step" / "rdeliver": internal steps of the client / immediate delivery in the harness
    steps += [dict(op="set", auto_connect=1, auto_write=1), dict(op="unhold"), dict(op="quiesce", ms=150000)]
    return json.dumps(dict(name=name, steps=steps), separators=(",", ":"))


RQOS = {"Q_12": [1, 2], "Q_22": [2, 2], "Q_212": [2, 1, 2], "Q_2211": [2, 2, 1, 1], "Q_122": [1, 2, 2]}
RCFGS = {"quick": ["MCRecv.gen.cfg", "MCRecv.gen.Q_122.cfg", "MCRecv.gen.Q_22.cfg", "MCRecv.gen.silent.cfg"],
         "thorough": ["MCRecv.gen.cfg", "MCRecv.gen.Q_122.cfg", "MCRecv.gen.Q_22.cfg", "MCRecv.gen.silent.cfg", "MCRecv.gen.Q_2211.cfg"]}


def to_script_recv(name, hist, qos):
    """a history of Recv.tla (broker publishes, the client's acknowledgement writes reach the broker / complete / fail,
    reconnects with Session Present 0/1) as a scenario: the client's writes are held and released step by step"""
    steps = [dict(op="cfg", hosts=1, ka=0, tseed=7), dict(op="run", id=1), dict(op="recv", id=2, loop=1), dict(op="advance", ms=1),
             dict(op="set", auto_write=0)]
    for h in hist:
        o = h["op"]
        if o == "bpub": steps.append(dict(op="bpub", qos=qos[h["m"] - 1], msg="r%d" % h["m"]))
        # (Recv.tla writes one acknowledgement per write; the real sender puts everything queued into one write, so a
        # later wdeliver / wend of the model may find no write left: those two are optional steps)
        elif o == "wdeliver": steps.append(dict(op="wdeliver", opt=1))
        elif o == "wend": steps.append(dict(op="wend", ec="ok", opt=1))
        elif o == "wlost": steps.append(dict(op="wend", ec="ok", drop=1, opt=1))     # reported written, lost with the connection
        elif o == "fault": steps.append(dict(op="fault", ec="reset"))
        elif o == "reconnect":
            # the pause after the single broker failed, the TCP connect, then the CONNECT write goes through
            steps += [dict(op="connack", sp=h["sp"]), dict(op="advance", ms=2000), dict(op="wend", ec="ok")]
        # "read": the harness hands bytes to the client as soon as the broker sends them
    steps += [dict(op="set", auto_write=1), dict(op="quiesce", ms=150000)]
    return json.dumps(dict(name=name, steps=steps), separators=(",", ":"))


def scripts_recv(tier):
    cfgs = [c for c in RCFGS[tier] if os.path.exists(os.path.join(vlib.SPEC, c))]
    h = hashlib.sha256()
    for f in ["Recv.tla", "MCRecv.tla"] + cfgs:
        with open(os.path.join(vlib.SPEC, f), "rb") as fh: h.update(fh.read())
    with open(__file__, "rb") as fh: h.update(fh.read())
    cp = os.path.join(vlib.WORK, "cache", "l3recv-%s-%s.ndjson" % (tier, h.hexdigest()[:16]))
    if os.path.exists(cp):
        with open(cp) as f: return [l.strip() for l in f if l.strip()]
    out, seen = [], set()
    for cfg in cfgs:
        with open(os.path.join(vlib.SPEC, cfg)) as f: qos = RQOS[re.search(r"QosOf <- (\w+)", f.read()).group(1)]
        rc, o = vlib.tlc("MCRecv.tla", cfg, workers=1, timeout=3000, java_opts="-Xmx4g")
        if "Error" in o and "SCRIPT" not in o:
            raise vlib.CheckError("script generation failed for %s: %s" % (cfg, o[-1500:]))
        for line in o.splitlines():
            line = line.strip()
            if line.startswith('"SCRIPT '):
                hist = json.loads(json.loads(line)[7:])
                key = cfg + json.dumps([x for x in hist if x["op"] != "read"])
                if key in seen or not hist: continue
                seen.add(key)
                out.append(to_script_recv("l3r-%s-%d" % (cfg.replace("MCRecv.gen.", "").replace(".cfg", "") or "base", len(out)), hist, qos))
    os.makedirs(os.path.dirname(cp), exist_ok=True)
    with open(cp, "w") as f: f.write("\n".join(out) + "\n")
    return out


def scripts(tier):
    cfgs = [c for c in CFGS[tier] if os.path.exists(os.path.join(vlib.SPEC, c))]
    h = hashlib.sha256()
    for f in ["Client.tla", "MCClient.tla", "SenderCore.tla", "Observer.tla"] + cfgs:
        with open(os.path.join(vlib.SPEC, f), "rb") as fh: h.update(fh.read())
    with open(__file__, "rb") as fh: h.update(fh.read())
    cp = os.path.join(vlib.WORK, "cache", "l3-%s-%s.ndjson" % (tier, h.hexdigest()[:16]))
    if os.path.exists(cp):
        with open(cp) as f: return [l.strip() for l in f if l.strip()]
    out, seen = [], set()
    for cfg in cfgs:
        kinds = _kinds_of(cfg)
        rc, o = vlib.tlc("MCClient.tla", cfg, workers=1, timeout=3000, java_opts="-Xmx8g")
        for f in os.listdir(vlib.SPEC):
            if "_TTrace_" in f: os.remove(os.path.join(vlib.SPEC, f))
        if "Error" in o and "SCRIPT" not in o:
            raise vlib.CheckError("script generation failed for %s: %s" % (cfg, o[-1500:]))
        for line in o.splitlines():
            line = line.strip()
            if line.startswith('"SCRIPT '):
                hist = json.loads(json.loads(line)[7:])
                key = cfg + json.dumps([x for x in hist if x["op"] not in ("step", "rdeliver")])
                if key in seen: continue
                seen.add(key)
                out.append(to_script("l3-%s-%d" % (cfg.replace("MCClient.gen.", "").replace(".cfg", "") or "base", len(out)), hist, kinds))
    os.makedirs(os.path.dirname(cp), exist_ok=True)
    with open(cp, "w") as f: f.write("\n".join(out) + "\n")
    return out


if __name__ == "__main__":
    import sys
    s = (scripts_recv if len(sys.argv) > 2 and sys.argv[2] == "recv" else scripts)(sys.argv[1] if len(sys.argv) > 1 else "quick")
    sys.stderr.write("%d scripts\n" % len(s))
    for l in s: print(l)
