#!/bin/bash
# tryseed.sh <patch.diff> <prop> [<prop> ...] : apply a seeded change to /repo, run the listed checks, undo it.
P=$1; shift
cd /verif
git -C /repo diff --quiet || { echo "/repo has uncommitted changes"; exit 2; }
git -C /repo apply $P || { echo "patch does not apply"; exit 2; }
for p in "$@"; do ./check $p 2>&1 | grep -E "VIOLATION|KNOWN|quick|ERROR" | cut -c1-230; done
git -C /repo checkout -- .
git -C /repo diff --quiet && echo "repo restored"; make -s -C /verif/harness -j2 >/dev/null 2>&1
