#!/usr/bin/env python3
"""Common machinery of the checks: build, scenario execution, TLC runs, caching,
known findings, evidence files, VIOLATION reporting."""
import concurrent.futures as cf
import hashlib, json, os, re, shutil, subprocess, sys, time

VERIF = "/verif"
REPO = os.environ.get("VERIF_REPO", "/repo")
WORK = os.path.join(VERIF, "_work")
BIN = os.path.join(WORK, "bin")
SPEC = os.path.join(VERIF, "spec")
NCPU = max(2, min(16, os.cpu_count() or 4))

sys.path.insert(0, os.path.join(VERIF, "tools"))


class CheckError(Exception):
    pass


def log(*a):
    print(*a, flush=True)


def sh(cmd, timeout=None, env=None, cwd=None):
    e = dict(os.environ)
    if env: e.update(env)
    p = subprocess.run(cmd, shell=isinstance(cmd, str), stdout=subprocess.PIPE, stderr=subprocess.STDOUT,
                       timeout=timeout, env=e, cwd=cwd)
    return p.returncode, p.stdout.decode("utf-8", "replace")


# ----------------------------------------------------------------- hashing / cache
def _hash_tree(paths, exts=None):
    h = hashlib.sha256()
    for root in paths:
        if os.path.isfile(root):
            files = [root]
        else:
            files = []
            for d, dn, fn in os.walk(root):
                dn[:] = sorted(x for x in dn if x not in ("_work", ".git", "__pycache__", "states"))
                for f in sorted(fn):
                    if exts is None or os.path.splitext(f)[1] in exts:
                        files.append(os.path.join(d, f))
        for f in files:
            h.update(f.encode()); h.update(b"\0")
            with open(f, "rb") as fh: h.update(fh.read())
    return h.hexdigest()[:20]


_repo_hash = None


def repo_hash():
    global _repo_hash
    if _repo_hash is None:
        _repo_hash = _hash_tree([os.path.join(REPO, "include")])
    return _repo_hash


def machinery_hash():
    return _hash_tree([os.path.join(VERIF, "harness"), os.path.join(VERIF, "spec"), os.path.join(VERIF, "tools"),
                       os.path.join(VERIF, "corpus")], exts={".hpp", ".cpp", ".tla", ".cfg", ".py", ".ndjson", ".json", ""})


# ----------------------------------------------------------------- build
def build(targets=("simrun_gen", "simrun_tcp"), extra=""):
    """(re)builds harness binaries from /repo's current working tree; depfiles decide what is stale."""
    os.makedirs(BIN, exist_ok=True)
    t0 = time.time()
    tg = " ".join(os.path.join(BIN, t) for t in targets)
    rc, out = sh("flock %s/build.lock make -C %s/harness -j%d REPO=%s OUT=%s %s %s" % (WORK, VERIF, NCPU, REPO, BIN, extra, tg), timeout=3000)
    if rc != 0:
        log(out[-6000:])
        raise CheckError("harness build failed")
    return time.time() - t0


# ----------------------------------------------------------------- TLC
def tlc(module, cfg, env=None, workers=1, timeout=1800, metadir=None, extra="", cwd=SPEC, java_opts=""):
    import uuid
    md = metadir or os.path.join(WORK, "tlc", "%s-%d-%s" % (module, os.getpid(), uuid.uuid4().hex[:12]))
    shutil.rmtree(md, ignore_errors=True)
    os.makedirs(md, exist_ok=True)
    gc = "-XX:ParallelGCThreads=2" if str(workers) in ("1", "2") else ""
    cmd = "java -XX:+UseParallelGC -Djava.io.tmpdir=" + md + " " + gc + " %s -cp /opt/veriftools/tla/tla2tools.jar:/opt/veriftools/tla/CommunityModules-deps.jar tlc2.TLC -workers %s -metadir %s -config %s %s %s" % (
        java_opts, workers, md, cfg, extra, module)
    try:
        rc, out = sh(cmd, timeout=timeout, env=env, cwd=cwd)
    except subprocess.TimeoutExpired:
        shutil.rmtree(md, ignore_errors=True)
        raise CheckError("TLC timed out: %s %s" % (module, cfg))
    shutil.rmtree(md, ignore_errors=True)
    return rc, out


def tlc_stats(out):
    m = re.search(r"(\d+) states generated, (\d+) distinct states found", out)
    return (int(m.group(1)), int(m.group(2))) if m else (0, 0)


CONN_PREFIXES = tuple('{"e":"%s"' % k for k in ("reset", "cfg", "call", "cancel_all", "destroy", "cancel_op", "resolve", "resolve_end",
                                                     "attempt", "attempt_end", "fire"))

KA_PREFIXES = ('{"e":"reset"', '{"e":"cfg"', '{"e":"c_write_end"')

# ----------------------------------------------------------------- scenario execution + trace validation
def _run_shard(args):
    binary, scripts, trace, tlcout = args
    rc, out = sh([binary, scripts, trace], timeout=1800)
    crashed = []
    if rc != 0:
        # the real client crashed (signal / abort) in some scenario: find which, keep the others
        with open(scripts) as f: lines = [l.strip() for l in f if l.strip()]
        good = []
        for j, line in enumerate(lines):
            one = scripts + ".one%d" % j
            with open(one, "w") as f: f.write(line + "\n")
            rc1, out1 = sh([binary, one, one + ".trace"], timeout=600)
            if rc1 != 0: crashed.append((j, "exit status %d %s" % (rc1, out1[-300:].replace("\n", " "))))
            else: good.append(j)
            for p in (one, one + ".trace"):
                if os.path.exists(p) and rc1 == 0: os.remove(p)
        if not crashed:
            return dict(ok=False, err="simrun rc=%d (not reproducible per scenario): %s" % (rc, out[-2000:]))
        # re-run without the crashing scenarios replaced by an empty scenario (indices stay aligned)
        with open(scripts, "w") as f:
            for j, line in enumerate(lines):
                f.write((line if j in good else json.dumps(dict(name="crashed-%d" % j, steps=[]))) + "\n")
        rc, out = sh([binary, scripts, trace], timeout=1800)
        if rc != 0:
            return dict(ok=False, err="simrun rc=%d after isolating crashes: %s" % (rc, out[-2000:]))
    rc2, out2 = tlc("TraceObserver.tla", "TraceObserver.cfg", env=dict(TRACE=trace), workers=1, timeout=3000,
                    java_opts="-Xmx3g")
    with open(tlcout, "w") as f: f.write(out2)
    viol = [(j, 0, "CXX_x_ClientCrashed") for (j, what) in crashed]
    for line in out2.splitlines():
        line = line.strip().strip('"')
        if line.startswith("VIOL "):
            p = line.split()
            viol.append((int(p[1]), int(p[2]), p[3]))
    st = tlc_stats(out2)
    accepted = "REJECTED" not in out2 and rc2 == 0 and st[0] > 0
    if not accepted:
        return dict(ok=False, err="trace not consumed by TraceObserver (rc=%d): %s" % (rc2, out2[-3000:]))
    # component conformance (never a violation by itself): internal hook events vs the model's sender functions
    dev = []
    rc3, out3 = tlc("TraceSender.tla", "TraceSender.cfg", env=dict(TRACE=trace), workers=1, timeout=3000, java_opts="-Xmx3g")
    if "REJECTED" in out3 or rc3 != 0:
        # the conformance folds are diagnostics: when one of them cannot follow a trace (e.g. a hook changed shape)
        # that is reported as a deviation and never breaks the deciding check
        dev.append((0, 0, "sender:trace-not-followed"))
    for line in out3.splitlines():
        line = line.strip().strip('"')
        if line.startswith("DEV "):
            p = line.split()
            dev.append((int(p[1]), int(p[2]), p[3]))
    # connection handling vs Conn.tla (rotation, endpoints, backoff exponent, run / cancel): same status as above
    ctrace = trace + ".conn"
    with open(trace) as f, open(ctrace, "w") as g:
        for l in f:
            if l.startswith(CONN_PREFIXES) : g.write(l)
    rc4, out4 = tlc("TraceConn.tla", "TraceConn.cfg", env=dict(TRACE=ctrace), workers=1, timeout=3000, java_opts="-Xmx3g")
    os.remove(ctrace)
    if "REJECTED" in out4 or rc4 != 0:
        dev.append((0, 0, "conn:trace-not-followed"))
    for line in out4.splitlines():
        line = line.strip().strip('"')
        if line.startswith("DEV "):
            p = line.split()
            dev.append((int(p[1]), int(p[2]), p[3]))
    # keep-alive timing vs KeepAlive.tla (a PINGREQ is never earlier than the design schedules it, never with keep-alive 0)
    ktrace = trace + ".ka"
    with open(trace) as f, open(ktrace, "w") as g:
        for l in f:
            if l.startswith(KA_PREFIXES) or (l.startswith('{"e":"c_pkt"') and '"type":"PINGREQ"' in l) \
               or (l.startswith('{"e":"b_send"') and '"type":"CONNACK"' in l) or (l.startswith('{"e":"h"') and '"update_session"' in l):
                g.write(l)
    rc5, out5 = tlc("TraceKeepAlive.tla", "TraceKeepAlive.cfg", env=dict(TRACE=ktrace), workers=1, timeout=3000, java_opts="-Xmx3g")
    os.remove(ktrace)
    if "REJECTED" in out5 or rc5 != 0:
        dev.append((0, 0, "ka:trace-not-followed"))
    for line in out5.splitlines():
        line = line.strip().strip('"')
        if line.startswith("DEV "):
            p = line.split()
            dev.append((int(p[1]), int(p[2]), p[3]))
    # model-guided scripts: an environment step of the model that the real client does not enable
    with open(trace) as f:
        ndiv = sum(1 for l in f if '"e":"diverged"' in l)
    if ("/model-" in trace or "/modelrecv-" in trace) and ndiv:
        dev.append((0, 0, "model-step-not-enabled-in-the-client:%d" % ndiv))
    m = re.search(r"simrun: (\d+) scenarios, (\d+) events", out)
    return dict(ok=True, viol=viol, dev=dev, states=st[0], scen=int(m.group(1)) if m else 0, events=int(m.group(2)) if m else 0)


def run_scripts(name, lines, binary="simrun_gen", shards=None):
    """executes script lines on the real client and validates the traces with TLC.
    returns dict(viol=[(global_sc, n, clause)], scen, events, states, dir)"""
    d = os.path.join(WORK, "run", name)
    shutil.rmtree(d, ignore_errors=True)
    os.makedirs(d)
    # shards of bounded size (TLC loads a whole trace file), processed by a pool of NCPU workers
    per = 300 if shards is None else (len(lines) + shards - 1) // shards
    per = max(1, min(per, max(1, (len(lines) + NCPU - 1) // NCPU))) if shards is None else per
    nsh = (len(lines) + per - 1) // per
    jobs, offs = [], []
    for i in range(nsh):
        part = lines[i * per:(i + 1) * per]
        if not part: continue
        sp = os.path.join(d, "scripts_%03d.ndjson" % i)
        with open(sp, "w") as f: f.write("\n".join(part) + "\n")
        jobs.append((os.path.join(BIN, binary), sp, os.path.join(d, "trace_%03d.ndjson" % i), os.path.join(d, "tlc_%03d.txt" % i)))
        offs.append(i * per)
    res = dict(viol=[], dev=[], scen=0, events=0, states=0, dir=d, shards=[])
    with cf.ThreadPoolExecutor(max_workers=NCPU) as ex:
        outs = list(ex.map(_run_shard, jobs))
    for (job, off, o) in zip(jobs, offs, outs):
        if not o["ok"]:
            raise CheckError("%s: %s" % (name, o["err"]))
        res["scen"] += o["scen"]; res["events"] += o["events"]; res["states"] += o["states"]
        for (sc, n, cl) in o["viol"]:
            res["viol"].append(dict(sc=off + sc, n=n, clause=cl, shard=job[1], trace=job[2], local=sc))
        for (sc, n, what) in o.get("dev", []):
            res["dev"].append(dict(sc=off + sc, n=n, what=what, trace=job[2], local=sc))
    return res


def scenario_events(trace, local_sc):
    ev, cur = [], None
    with open(trace) as f:
        for line in f:
            if '"e":"reset"' in line:
                cur = json.loads(line)["sc"]
            if cur == local_sc:
                ev.append(json.loads(line))
            elif cur is not None and cur > local_sc:
                break
    return ev


# ----------------------------------------------------------------- known findings
def load_findings():
    p = os.path.join(VERIF, "known_findings.json")
    if not os.path.exists(p): return []
    with open(p) as f: return json.load(f)["findings"]


# ----------------------------------------------------------------- evidence / reporting
def write_evidence(pid, tier, seed, level, coverage, wall, violations, assumptions):
    os.makedirs(os.path.join(VERIF, "evidence"), exist_ok=True)
    ev = dict(property_id=pid, tier=tier, seed=int(seed), level=level, coverage=coverage,
              assumptions=assumptions, wall_s=round(wall, 2), violations=int(violations))
    with open(os.path.join(VERIF, "evidence", pid + ".json"), "w") as f:
        json.dump(ev, f, indent=1, sort_keys=True)
        f.write("\n")


def save_replay(pid, tag, script_line, events, note):
    d = os.path.join(WORK, "replay", "%s-%s" % (pid, tag))
    shutil.rmtree(d, ignore_errors=True)
    os.makedirs(d)
    with open(os.path.join(d, "script.ndjson"), "w") as f: f.write(script_line.strip() + "\n")
    with open(os.path.join(d, "trace.ndjson"), "w") as f:
        for e in events: f.write(json.dumps(e, separators=(",", ":")) + "\n")
    with open(os.path.join(d, "note.txt"), "w") as f: f.write(note + "\n")
    return d
