#!/usr/bin/env python3
"""Stage deciding the wire-format properties C17 (every packet written is well-formed MQTT 5 and says
exactly what was asked) and C18 (well-formed packets from the broker decode to exactly their contents).

  1. TLC enumerates packet vectors from spec/WireVec.tla (reference bytes by spec/Wire.tla); the vector files
     do not depend on /repo and are cached under _work/cache keyed by a hash of the spec files;
  2. harness/vec_wire.cpp replays them into the REAL encoders (C17) / decoders (C18) of /repo;
  3. TLC reads the recorded results back (spec/TraceWire.tla) and decides with the reference codec.

    python3 /verif/tools/stage_wire.py C17 quick          standalone run (exit 0 / 1 violation / 2 error)
    python3 /verif/tools/stage_wire.py C17 --replay DIR   re-runs the vectors saved in a replay directory
"""
import concurrent.futures as cf
import fnmatch, hashlib, json, os, re, shutil, sys, time

sys.path.insert(0, "/verif/tools")
import vlib
from vlib import log, CheckError

# (packet type, number of TLC processes the enumeration is split into: quick, thorough)
C2S = [("CONNECT", 1, 12), ("PUBLISH", 1, 3), ("PUBACK", 1, 1), ("PUBREC", 1, 1), ("PUBREL", 1, 1), ("PUBCOMP", 1, 1),
       ("SUBSCRIBE", 1, 1), ("UNSUBSCRIBE", 1, 1), ("PINGREQ", 1, 1), ("DISCONNECT", 1, 1), ("AUTH", 1, 1)]
S2C = [("CONNACK", 2, 16), ("PUBLISH", 1, 4), ("PUBACK", 1, 1), ("PUBREC", 1, 1), ("PUBREL", 1, 1), ("PUBCOMP", 1, 1),
       ("SUBACK", 1, 1), ("UNSUBACK", 1, 1), ("PINGRESP", 1, 1), ("DISCONNECT", 1, 1), ("AUTH", 1, 1)]
PLAN = {"C17": ("c2s", C2S), "C18": ("s2c", S2C)}
SPEC_FILES = ["Wire.tla", "WireVec.tla"]
# the recursive operators of Wire.tla need a deep stack; the runs are short and many: serial GC and C1 only
# (halves the CPU of a run); appended after vlib.tlc's own -XX:+UseParallelGC, the later flag wins
JAVA = "-XX:-UseParallelGC -XX:+UseSerialGC -XX:TieredStopAtLevel=1 -Xss256m -Xmx1500m"


def _md(tag):
    return os.path.join(vlib.WORK, "tlc", "wire-%s-%d" % (tag, os.getpid()))
NSHARDS = 16


def _spec_hash(tier):
    h = hashlib.sha256()
    for f in SPEC_FILES + ["WireVec.%s.cfg" % tier]:
        with open(os.path.join(vlib.SPEC, f), "rb") as fh: h.update(fh.read())
    return h.hexdigest()[:16]


def _gen_one(job):
    """one TLC process: one (type, direction, part) -> ndjson file"""
    ptype, d, k, n, tier, path = job
    if os.path.exists(path): return dict(path=path, cached=True, wall=0.0)
    tmp = "%s.tmp%d" % (path, os.getpid())
    t0 = time.time()
    rc, out = vlib.tlc("WireVec.tla", "WireVec.%s.cfg" % tier, workers=1, timeout=3000, java_opts=JAVA,
                       metadir=_md("gen-%s-%s-%s-%d" % (tier, ptype, d, k)),
                       env=dict(PTYPE=ptype, DIR=d, OUT=tmp, PARTK=str(k), PARTN=str(n)))
    if rc != 0 or "WIREVEC" not in out or "SELFCHECK-FAILED" in out or not os.path.exists(tmp):
        if os.path.exists(tmp): os.remove(tmp)
        raise CheckError("vector generation failed for %s/%s part %d/%d: %s" % (ptype, d, k, n, out[-3000:]))
    os.rename(tmp, path)
    return dict(path=path, cached=False, wall=time.time() - t0)


def vectors(pid, tier):
    """returns (list of vector lines, info); generates the missing vector files with TLC"""
    d, plan = PLAN[pid]
    cdir = os.path.join(vlib.WORK, "cache", "wirevec-%s-%s" % (_spec_hash(tier), tier))
    os.makedirs(cdir, exist_ok=True)
    for other in os.listdir(os.path.dirname(cdir)):      # vector files of older versions of the spec
        if other.startswith("wirevec-") and other.endswith("-" + tier) and other != os.path.basename(cdir):
            shutil.rmtree(os.path.join(os.path.dirname(cdir), other), ignore_errors=True)
    jobs = []
    for (ptype, nq, nt) in plan:
        n = nq if tier == "quick" else nt
        for k in range(n):
            jobs.append((ptype, d, k, n, tier, os.path.join(cdir, "%s-%s-%dof%d.ndjson" % (ptype, d, k, n))))
    t0 = time.time()
    with cf.ThreadPoolExecutor(max_workers=vlib.NCPU) as ex:
        res = list(ex.map(_gen_one, jobs))
    lines = []
    for r in res:
        with open(r["path"]) as f: lines += [x for x in f.read().split("\n") if x]
    return lines, dict(dir=cdir, generated=sum(1 for r in res if not r["cached"]), files=len(res), wall=round(time.time() - t0, 1))


def _run_shard(args):
    vec, res, tlcout = args
    rc, out = vlib.sh([os.path.join(vlib.BIN, "vec_wire"), vec, res], timeout=3000)
    if rc != 0 or "vec_wire:" not in out:
        return dict(ok=False, err="vec_wire rc=%d: %s" % (rc, out[-2000:]))
    rc2, out2 = vlib.tlc("TraceWire.tla", "TraceWire.cfg", env=dict(TRACE=res), workers=1, timeout=3000, java_opts=JAVA,
                         metadir=_md("trace-" + re.sub(r"[^A-Za-z0-9]", "_", res[-60:])))
    with open(tlcout, "w") as f: f.write(out2)
    viol = []
    for line in out2.splitlines():
        line = line.strip().strip('"')
        if line.startswith("VIOL "):
            p = line.split()
            viol.append(dict(id=int(p[1]), clause=p[2], cls=p[3] if len(p) > 3 else "-"))
    st = vlib.tlc_stats(out2)
    m = re.search(r'"WIRESTAT", (\d+), (\d+)', out2)
    if rc2 != 0 or "REJECTED" in out2 or not m or st[0] != int(m.group(1)) + 1:
        return dict(ok=False, err="results not consumed by TraceWire (rc=%d): %s" % (rc2, out2[-3000:]))
    return dict(ok=True, viol=viol, states=st[0], lines=int(m.group(1)), identical=int(m.group(2)))


def run_vectors(name, lines, shards=NSHARDS):
    """driver + TraceWire over the vector lines; returns dict(viol, states, lines, identical, dir, results{id: path})"""
    d = os.path.join(vlib.WORK, "run", name)
    shutil.rmtree(d, ignore_errors=True)
    os.makedirs(d)
    shards = max(1, min(shards, len(lines) // 50 or 1))
    jobs = []
    for i in range(shards):
        part = lines[i::shards]                # round robin: spreads the few huge packets
        if not part: continue
        vp = os.path.join(d, "vec_%02d.ndjson" % i)
        with open(vp, "w") as f: f.write("\n".join(part) + "\n")
        jobs.append((vp, os.path.join(d, "res_%02d.ndjson" % i), os.path.join(d, "tlc_%02d.txt" % i)))
    with cf.ThreadPoolExecutor(max_workers=vlib.NCPU) as ex:
        outs = list(ex.map(_run_shard, jobs))
    r = dict(viol=[], states=0, lines=0, identical=0, dir=d)
    for job, o in zip(jobs, outs):
        if not o["ok"]: raise CheckError("%s: %s" % (name, o["err"]))
        r["states"] += o["states"]; r["lines"] += o["lines"]; r["identical"] += o["identical"]
        for v in o["viol"]:
            v["vec"], v["res"] = job[0], job[1]
            r["viol"].append(v)
    if r["lines"] != len(lines):
        raise CheckError("%s: %d vectors sent, %d result lines validated" % (name, len(lines), r["lines"]))
    return r


def _line_with_id(path, vid):
    key = '{"id":%d,' % vid
    with open(path) as f:
        for line in f:
            if line.startswith(key): return line.strip()
    return ""


def report(pid, viols):
    """known findings / new violations; returns number of NEW violations (vectors)"""
    infra = [v for v in viols if v["clause"].startswith("X_")]
    if infra:
        raise CheckError("vector file does not match spec/Wire.tla (stale cache?): vector %d %s" % (infra[0]["id"], infra[0]["clause"]))
    mine = [v for v in viols if v["clause"].startswith(pid + "_")]
    known = [k for k in vlib.load_findings() if k.get("property") == pid and k.get("status") == "open"]
    groups, kn = {}, {}
    for v in mine:
        k = next((k for k in known if k.get("clause") == v["clause"] and
                  fnmatch.fnmatchcase(v["cls"], k.get("signature", {}).get("class", "\0"))), None)
        if k: kn.setdefault(k["id"], [k, 0]); kn[k["id"]][1] += 1
        else: groups.setdefault((v["clause"], v["cls"]), []).append(v)
    for kid, (k, cnt) in sorted(kn.items()):
        log("KNOWN-FINDING: property=%s %s: %s [%s, %d vector(s)]" % (pid, k["id"], k["what"], k["clause"], cnt))
    for (clause, cls), vs in sorted(groups.items()):
        tag = re.sub(r"[^A-Za-z0-9_.+-]", "_", "%s-%s-%s" % (pid, clause, cls))
        d = os.path.join(vlib.WORK, "replay", tag)
        shutil.rmtree(d, ignore_errors=True); os.makedirs(d)
        vs = sorted(vs, key=lambda v: v["id"])
        with open(os.path.join(d, "vectors.ndjson"), "w") as fv, open(os.path.join(d, "results.ndjson"), "w") as fr:
            for v in vs[:200]:
                fv.write(_line_with_id(v["vec"], v["id"]) + "\n")
                fr.write(_line_with_id(v["res"], v["id"]) + "\n")
        with open(os.path.join(d, "note.txt"), "w") as f:
            f.write("property %s clause %s class %s: %d vector(s), first id %d\nreplay: python3 /verif/tools/stage_wire.py %s --replay %s\n"
                    % (pid, clause, cls, len(vs), vs[0]["id"], pid, d))
        log("VIOLATION property=%s replay=%s clause=%s class=%s" % (pid, d, clause, cls))
    return sum(len(v) for v in groups.values()), len(kn)


def stage(pid, tier, seed):
    """seed is not used: the vector set is a deterministic bounded enumeration, nothing is sampled"""
    if pid not in PLAN: raise CheckError("stage_wire decides C17 and C18 only")
    tier = tier if tier in ("quick", "thorough") else "quick"
    t0 = time.time()
    bt = vlib.build(targets=("vec_wire",))
    lines, ginfo = vectors(pid, tier)
    t1 = time.time()
    r = run_vectors("wire-%s-%s" % (pid, tier), lines)
    nnew, nknown = report(pid, r["viol"])
    per_type, per_fam = {}, {}
    for x in lines:
        m = re.search(r'"type":"(\w+)"', x); per_type[m.group(1)] = per_type.get(m.group(1), 0) + 1
        m = re.search(r'"fam":"(\w+)"', x); per_fam[m.group(1)] = per_fam.get(m.group(1), 0) + 1
    samples = []
    for x in (lines[0], lines[len(lines) // 2], lines[-1]):
        v = json.loads(x)
        samples.append(dict(id=v["id"], type=v["type"], fam=v["fam"], form=v["form"], remaining_length=v["rl"], pkt=v["pkt"] if len(x) < 1500 else "(large)"))
    return dict(name="wire vectors (spec/Wire.tla reference, TLC-enumerated, TLC-validated)", states=r["states"], transitions=r["states"],
                violations=nnew, known=nknown, samples=samples, vectors=len(lines), per_type=per_type, per_family=per_fam,
                identical_bytes=r["identical"], build_s=round(bt, 1), generation=ginfo, replay_s=round(time.time() - t1, 1),
                wall_s=round(time.time() - t0, 1), dir=r["dir"],
                rule="bounded boundary-oriented enumeration by TLC (spec/WireVec.tla, tier %s); every vector is a distinct packet record, checked "
                     "admissible and self-consistent (Decode(Encode(p)) = p) by the reference before it is used" % tier)


def replay(pid, path):
    with open(os.path.join(path, "vectors.ndjson")) as f: lines = [x.strip() for x in f if x.strip()]
    vlib.build(targets=("vec_wire",))
    r = run_vectors("wire-replay-%s-%d" % (pid, os.getpid()), lines, shards=1)
    for v in r["viol"]: log("VIOL %d %s %s" % (v["id"], v["clause"], v["cls"]))
    log("replayed %d vector(s): %d disagreement(s)" % (len(lines), len(r["viol"])))
    return 1 if r["viol"] else 0


def main():
    a = sys.argv[1:]
    if not a: print(__doc__); return 2
    pid = a[0].upper()
    try:
        if "--replay" in a: return replay(pid, a[a.index("--replay") + 1])
        tier = a[1] if len(a) > 1 else "quick"
        r = stage(pid, tier, int(os.environ.get("VERIF_SEED", "1")))
        log(json.dumps({k: v for k, v in r.items() if k != "samples"}, indent=1, sort_keys=True))
        log("%s %s: %d vectors, %d TLC states, %d new violation(s), %d known finding(s), %.1fs" % (
            pid, tier, r["vectors"], r["states"], r["violations"], r["known"], r["wall_s"]))
        return 1 if r["violations"] else 0
    except CheckError as e:
        log("CHECK-ERROR", e); return 2


if __name__ == "__main__":
    sys.exit(main())
