#!/bin/bash
# run_suite.sh <test-binary> : runs the repository's Boost.Test suite; tests that fail are re-run in isolation
# (the suite uses real-time timers of a few ms and is flaky when the machine is loaded). Exit 0 iff every
# test passes in the full run or in an isolated re-run.
BIN=$1
# a few tests wait without a deadline for bytes their scripted broker sent "7 ms after start": on a loaded machine the
# bytes can be sent before the client is connected and the test then never ends (seen on the pristine snapshot too)
for attempt in 1 2 3; do
  OUT=$(timeout 600 $BIN --report_level=short --log_level=error 2>&1); rc0=$?
  [ $rc0 != 124 ] && break
  echo "full run timed out (attempt $attempt)"
done
[ $rc0 = 124 ] && { echo "SUITE: full run timed out three times"; exit 1; }
echo "$OUT" | tail -6
FAILED=$(echo "$OUT" | grep -oE 'error: in "[^"]+"' | sed 's/error: in "//; s/"$//' | sort -u)
[ -z "$FAILED" ] && { echo "SUITE: all passed"; exit 0; }
rc=0
for t in $FAILED; do
  ok=0
  for i in 1 2 3; do
    if timeout 120 $BIN --run_test="$t" --report_level=no --log_level=nothing > /dev/null 2>&1; then ok=1; break; fi
  done
  if [ $ok = 1 ]; then echo "RETRY-OK $t"; else echo "STILL-FAILING $t"; rc=1; fi
done
[ $rc = 0 ] && echo "SUITE: all passed (after isolated re-runs)" || echo "SUITE: failures remain"
exit $rc
