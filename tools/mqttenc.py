#!/usr/bin/env python3
"""Tiny MQTT 5 encoder for broker-side packets (python), used by the hostile-input generator to build
valid packets that are then mutated.  Written from the OASIS text; independent of the library."""


def varint(n):
    out = bytearray()
    while True:
        b = n & 0x7f
        n >>= 7
        if n: b |= 0x80
        out.append(b)
        if not n: return bytes(out)


def u16(n): return bytes([(n >> 8) & 0xff, n & 0xff])
def u32(n): return bytes([(n >> 24) & 0xff, (n >> 16) & 0xff, (n >> 8) & 0xff, n & 0xff])
def s(x):
    if isinstance(x, str): x = x.encode()
    return u16(len(x)) + x


KINDS = {0x01: "b", 0x02: "u32", 0x03: "s", 0x08: "s", 0x09: "s", 0x0B: "v", 0x11: "u32", 0x12: "s", 0x13: "u16", 0x15: "s", 0x16: "s",
         0x17: "b", 0x18: "u32", 0x19: "b", 0x1A: "s", 0x1C: "s", 0x1F: "s", 0x21: "u16", 0x22: "u16", 0x23: "u16", 0x24: "b", 0x25: "b",
         0x26: "p", 0x27: "u32", 0x28: "b", 0x29: "b", 0x2A: "b"}


def props(ps):
    body = b""
    for p in ps:
        pid = p[0]; k = KINDS[pid]
        body += varint(pid)
        if k == "b": body += bytes([p[1]])
        elif k == "u16": body += u16(p[1])
        elif k == "u32": body += u32(p[1])
        elif k == "v": body += varint(p[1])
        elif k == "s": body += s(p[1])
        else: body += s(p[1]) + s(p[2])
    return varint(len(body)) + body


def frame(t, flags, body): return bytes([(t << 4) | flags]) + varint(len(body)) + body


def connack(sp=0, rc=0, ps=()): return frame(2, 0, bytes([sp, rc]) + props(ps))
def publish(topic, payload, qos=0, pid=1, dup=0, retain=0, ps=()):
    b = s(topic) + (u16(pid) if qos else b"") + props(ps) + (payload.encode() if isinstance(payload, str) else payload)
    return frame(3, (dup << 3) | (qos << 1) | retain, b)
def ack(t, pid, rc=0, ps=(), short=0):
    b = u16(pid)
    if short == 2: return frame(t, 2 if t == 6 else 0, b)
    b += bytes([rc])
    if short != 1: b += props(ps)
    return frame(t, 2 if t == 6 else 0, b)
def suback(t, pid, codes, ps=()): return frame(t, 0, u16(pid) + props(ps) + bytes(codes))
def disconnect(rc=0, ps=()): return frame(14, 0, bytes([rc]) + props(ps))
def auth(rc=0, ps=()): return frame(15, 0, bytes([rc]) + props(ps))
def pingresp(): return frame(13, 0, b"")
