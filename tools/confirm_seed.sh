#!/bin/bash
# confirm_seed.sh <worktree> : independently confirm a seeded change produced by a sub-agent:
#  (1) with the change the existing test-suite passes, (2) the demonstration fails with the change,
#  (3) the demonstration passes without it.  Writes <worktree>/OUT/confirm.log
WT=$1; cd $WT || exit 2
LOG=$WT/OUT/confirm.log; : > $LOG
git stash -q 2>/dev/null; git checkout -q -- include 2>/dev/null; git stash drop -q 2>/dev/null
git apply OUT/patch.diff || { echo "patch does not apply" | tee -a $LOG; exit 2; }
echo "== suite with change" >> $LOG
( cmake -G Ninja -B _build -S . -DCMAKE_BUILD_TYPE=RelWithDebInfo -DCMAKE_CXX_FLAGS=-Wno-error -DBUILD_TESTING=ON > /dev/null 2>&1; cmake --build _build -j4 2>&1 | tail -2; /verif/tools/run_suite.sh ./_build/test/boost_mqtt5-tests ) >> $LOG 2>&1
echo "== demo with change (must fail)" >> $LOG
( bash OUT/demo/run.sh > $WT/OUT/confirm_demo_with.log 2>&1; echo "rc=$?" ) >> $LOG
git checkout -q -- include
echo "== demo without change (must pass)" >> $LOG
( bash OUT/demo/run.sh > $WT/OUT/confirm_demo_without.log 2>&1; echo "rc=$?" ) >> $LOG
git apply OUT/patch.diff
cat $LOG
