#!/usr/bin/env python3
"""Scenario script generator (seeded).  Every scenario is a list of harness steps
(see harness/simrun.cpp).  The environment it scripts is a CONFORMANT broker and
network: acknowledgements only for what was received, valid reason codes, faults
are plain transport faults.  Misbehaving-broker families are generated separately
(gen_hostile.py) and judged only by the C14/C19 clauses.

Families
  send       publishes / subscribes with held+reordered acks, Receive Maximum, faults, cancellation
  recv       broker-initiated QoS 0/1/2 traffic, retransmission, session loss
  lifecycle  cancel / async_disconnect / destroy / restart at arbitrary points
  connect    broker lists, refused / silent / failing handshakes, timing
  caps       announced capabilities and requests at their boundaries
  keepalive  keep-alive / Server Keep Alive / silence windows
"""
import json, random, sys

PUBACK_RCS = [0, 0, 0, 16, 128, 131, 135, 144, 145, 151, 153]
PUBREC_OK = [0, 0, 16]
PUBREC_FAIL = [128, 131, 135, 144, 145, 151, 153]
PUBCOMP_RCS = [0, 0, 146]
SUBACK_RCS = [0, 1, 2, 128, 131, 135, 143, 145, 151, 158, 161, 162]
UNSUBACK_RCS = [0, 17, 128, 131, 135, 143, 145]
FAULT_ECS = ["reset", "eof", "broken_pipe", "conn_aborted", "timed_out", "not_connected", "aborted"]


class Sc:
    def __init__(self, rng, name):
        self.r = rng
        self.name = name
        self.steps = []
        self.next_id = 1
        self.nmsg = 0
        self.nack = 0
        self.live = []      # ids of requests possibly outstanding
        self.held = False

    def add(self, **kw):
        self.steps.append(kw)
        return kw

    def oid(self):
        i = self.next_id
        self.next_id += 1
        return i

    def cfg(self, **kw):
        d = dict(op="cfg", hosts=1, ka=0)
        d.update(kw)
        self.steps.append(d)

    def run(self):
        self.add(op="run", id=self.oid())

    def recv(self):
        self.add(op="recv", id=self.oid(), loop=1)

    def pub(self, qos=None, **kw):
        r = self.r
        self.nmsg += 1
        q = r.choice([0, 1, 1, 2, 2]) if qos is None else qos
        i = self.oid()
        d = dict(op="pub", id=i, qos=q, msg="m%d" % self.nmsg)
        if r.random() < 0.3:
            d["fill"] = "".join(r.choice("abcxyz0123") for _ in range(r.choice([0, 1, 5, 40, 200])))
        if r.random() < 0.25:
            d["retain"] = 1
        if r.random() < 0.3:
            props = []
            if r.random() < 0.5: props.append([1, 1])
            if r.random() < 0.4: props.append([2, r.choice([0, 1, 3600, 4294967295])])
            if r.random() < 0.4: props.append([3, "text/plain"])
            if r.random() < 0.3: props.append([8, "resp/t%d" % self.nmsg])
            if r.random() < 0.3: props.append([9, {"hex": "00ff10"}])
            for k in range(r.choice([0, 0, 1, 2])): props.append([38, "k%d" % k, "v%d" % self.nmsg])
            d["props"] = props
        d.update(kw)
        self.steps.append(d)
        if q > 0: self.live.append(i)
        return i

    def sub(self, unsub=False, n=None):
        r = self.r
        self.nmsg += 1
        i = self.oid()
        n = n or r.choice([1, 1, 2, 3])
        topics = []
        for k in range(n):
            f = "s%d/%d" % (self.nmsg, k)
            if not unsub and r.random() < 0.3: f += "/#"
            if unsub or r.random() < 0.5:
                topics.append(f)
            else:
                topics.append(dict(f=f, qos=r.choice([0, 1, 2]), nl=r.choice([0, 1]), rap=r.choice([0, 1]), rh=r.choice([0, 1, 2])))
        d = dict(op="unsub" if unsub else "sub", id=i, topics=topics)
        if r.random() < 0.3:
            props = [[38, "sk", "sv%d" % self.nmsg]]
            if not unsub and r.random() < 0.5: props.append([11, r.choice([1, 127, 128, 268435455])])
            d["props"] = props
        self.steps.append(d)
        self.live.append(i)
        return i

    def ackprops(self):
        self.nack += 1
        p = [[31, "ack-%d" % self.nack]]
        if self.r.random() < 0.3: p.append([38, "ak", "av%d" % self.nack])
        return p

    def quiesce(self, ms=150000):
        self.add(op="quiesce", ms=ms)

    def out(self):
        return json.dumps(dict(name=self.name, steps=self.steps), separators=(",", ":"))


def quota_probe(first_id, rm, tag="q"):
    """observability suffix: with acknowledgements withheld, RM+2 QoS 1 publishes are initiated back to back;
    a send quota that is too large shows as more than RM unacknowledged PUBLISH packets at the broker"""
    st = [dict(op="hold")]
    for k in range(rm + 2):
        st.append(dict(op="pub", id=first_id + k, qos=1, msg="%s%d" % (tag, first_id + k)))
    st.append(dict(op="advance", ms=1))
    st.append(dict(op="unhold"))
    return st


def caps_props(r, rm=None):
    p = []
    if rm is not None: p.append([33, rm])
    return p


def fault_step(s):
    r = s.r
    k = r.random()
    if k < 0.55:
        s.add(op="fault", ec=r.choice(["reset", "eof", "broken_pipe", "conn_aborted", "timed_out"]), on=r.choice(["both", "both", "read", "write"]))
    elif k < 0.75:
        s.add(op="bclose")
    elif k < 0.9:
        s.add(op="bdisc", rc=r.choice([0x8b, 0x8d, 0x98, 0x80, 0x00]))
    else:
        s.add(op="fault", ec="aborted", on="read")


def env_noise(s, allow_faults=True, pfault=0.12):
    """one random environment / application step of the send family"""
    r = s.r
    k = r.random()
    if k < 0.30:
        s.pub()
    elif k < 0.38:
        s.sub(unsub=r.random() < 0.4)
    elif k < 0.50 and s.held:
        # answer one held obligation, possibly out of order, with distinctive contents
        d = dict(op="ack", i=r.choice([0, 0, 0, 1, 2]))
        if r.random() < 0.6: d["props"] = s.ackprops()
        if r.random() < 0.2: d["short"] = r.choice([1, 2])
        # a reason code other than Success where MQTT admits it for that acknowledgement (PUBACK / PUBREC: 0x10 and the
        # failures, PUBCOMP: 0x92); a PUBREC below 0x80 is not final, the exchange must go on to PUBREL / PUBCOMP
        elif r.random() < 0.45: d["rcx"] = r.choice(PUBACK_RCS[3:] + [16, 16, 146, 146])
        s.steps.append(d)
    elif k < 0.56:
        if s.held: s.add(op="unhold"); s.held = False
        else: s.add(op="hold"); s.held = True
    elif k < 0.58:
        # a lost acknowledgement on a healthy connection (C02): only the client's own 20 s watchdog can recover
        if not s.held: s.add(op="hold")
        if r.random() < 0.7: s.pub(r.choice([1, 2]))
        else: s.sub()
        s.add(op="advance", ms=1); s.add(op="lose", i=0)
        if not s.held: s.add(op="unhold")
    elif k < 0.58 + pfault and allow_faults:
        fault_step(s)
    elif k < 0.74 and s.live:
        s.add(op="cancel_op", id=r.choice(s.live), type=r.choice(["total", "total", "partial"]))
    elif k < 0.80:
        s.add(op="advance", ms=r.choice([1, 500, 3000, 5000, 10000, 21000]))
    elif k < 0.84:
        s.add(op="set", auto_write=0)
        s.pub()
        m = r.random()
        if m < 0.12: s.add(op="wend", ec="ok", drop=1)               # reported written, lost with the connection
        elif m < 0.3: s.add(op="wend", ec=r.choice(["reset", "broken_pipe", "eof"]))
        elif m < 0.6: s.add(op="wdeliver", nb=r.choice([1, 2, 5, 9])); s.add(op="wend", ec=r.choice(["reset", "timed_out"]))
        else: s.add(op="wdeliver"); s.add(op="wend", ec=r.choice(["ok", "reset"]))
        s.add(op="set", auto_write=1)
    elif k < 0.86 and not s.held:
        # several requests in ONE write whose acknowledgements are all read before the write's completion handler
        # runs ("fast replies"): every one of them must still find its acknowledgement
        s.add(op="set", auto_write=0)
        s.pub(r.choice([0, 1]))                                   # its write is in progress: the next ones queue up
        for _ in range(r.choice([2, 2, 3])):
            if r.random() < 0.75: s.pub(r.choice([2, 2, 1]))
            else: s.sub()
        s.add(op="wend", ec="ok")                                 # first write done: the queued requests go out as one batch
        s.add(op="wdeliver")                                      # the broker has them and answers at once
        s.add(op="wend", ec="ok")
        s.add(op="set", auto_write=1)
        if r.random() < 0.5: fault_step(s)
    elif k < 0.88:
        s.add(op="set", chunk=r.choice([1, 2, 3, 7, 0]))
    elif k < 0.92:
        s.add(op="bpub", qos=r.choice([0, 1, 2]), msg="b%d" % len(s.steps))
    elif k < 0.95:
        s.add(op="connack", sp=r.choice([0, 1, -1]), props=caps_props(r, r.choice([None, 1, 2, 3])))
    else:
        s.add(op="step", k=r.choice([1, 2, 3, 5]))


def gen_send(rng, idx):
    s = Sc(rng, "send-%d" % idx)
    r = rng
    hosts = r.choice([1, 1, 2, 3])
    s.cfg(hosts=hosts, ka=r.choice([0, 0, 10, 60]), tseed=r.randrange(1, 1 << 30))
    rm = r.choice([None, None, 1, 1, 2, 3])
    s.add(op="connack", sticky=1, props=caps_props(r, rm))
    if r.random() < 0.3: s.pub()          # queued before async_run
    s.run()
    if r.random() < 0.7: s.recv()
    if r.random() < 0.5: s.add(op="hold"); s.held = True
    for _ in range(r.randrange(3, 14)):
        env_noise(s)
    if r.random() < 0.25:
        # the next connection announces another (or no) Receive Maximum; then QoS>0 traffic beyond the OLD limit
        # with acknowledgements withheld, followed by a QoS 0 publish
        rm2 = r.choice([None, None, 1, 2, 3])
        s.add(op="connack", sp=-1, props=caps_props(r, rm2))
        fault_step(s)
        s.quiesce(ms=60000)
        if s.held: s.add(op="unhold"); s.held = False
        s.add(op="hold"); s.held = True
        for _ in range((rm or 2) + 1): s.pub(r.choice([1, 2]))
        s.pub(0)
        s.add(op="advance", ms=1)
        s.add(op="unhold"); s.held = False
    elif r.random() < 0.6:
        s.quiesce(ms=60000)
        if s.held: s.add(op="unhold"); s.held = False
        base = s.next_id; s.next_id += 8
        s.steps += quota_probe(base, rm if rm is not None else 2)
    if rm is not None and r.random() < 0.10:
        # a QoS 2 exchange loses the connection in its PUBLISH or PUBREL phase (the write fails / succeeds and the
        # acknowledgement is lost), completes on the next connection, and then the quota is probed: every unit must have
        # been taken and returned exactly once
        s.quiesce(ms=60000)
        if s.held: s.add(op="unhold"); s.held = False
        s.add(op="set", auto_write=0)
        s.pub(2)
        ph = r.random()
        if ph < 0.6:
            s.add(op="wend", ec="ok")                                  # PUBLISH out, PUBREC back, the PUBREL write is pending
            s.add(op="wend", ec=r.choice(["reset", "broken_pipe", "ok"]), **({"drop": 1} if r.random() < 0.2 else {}))
            if s.steps[-1]["ec"] == "ok" and "drop" not in s.steps[-1]: s.add(op="fault", ec="reset")
        else:
            s.add(op="wdeliver", nb=r.choice([1, 5, 9])); s.add(op="wend", ec="reset")
        s.add(op="set", auto_write=1)
        s.quiesce(ms=60000)
        base = s.next_id; s.next_id += 8
        s.steps += quota_probe(base, rm, tag="p")
    if r.random() < 0.07:
        # a lost acknowledgement whose recovery (the 20 s watchdog's own DISCONNECT) is overtaken by a connection loss; a
        # second acknowledgement lost later must still be recovered: the watchdog has to survive its first use
        s.quiesce(ms=60000)
        if s.held: s.add(op="unhold"); s.held = False
        s.add(op="hold"); s.pub(r.choice([1, 2])); s.add(op="advance", ms=1); s.add(op="lose", i=0); s.add(op="unhold")
        s.add(op="advance", ms=15000)
        s.add(op="set", auto_write=0)
        s.add(op="advance", ms=9000)                               # the watchdog has fired: its DISCONNECT is being written
        s.add(op="wend", ec=r.choice(["reset", "broken_pipe"]))
        s.add(op="set", auto_write=1)
        s.quiesce(ms=60000)
        s.add(op="hold"); s.pub(r.choice([1, 2])); s.add(op="advance", ms=1); s.add(op="lose", i=0); s.add(op="unhold")
    s.quiesce()
    t = r.random()
    if t < 0.3: s.add(op="cancel_all"); s.add(op="drain")
    elif t < 0.6: s.add(op="disc", id=s.oid(), rc=r.choice([0, 4])); s.add(op="advance", ms=6000); s.add(op="drain")
    return s.out()


def sized_bpub(msg, qos, total):
    """a broker PUBLISH whose encoded size (fixed header included) is exactly `total` bytes"""
    import mqttenc as E
    topic = "in/" + msg
    base = len(E.publish(topic, msg + "|", qos, pid=1))
    for fill in range(max(0, total - base - 3), max(0, total - base) + 1):
        if len(E.publish(topic, msg + "|" + "z" * fill, qos, pid=1)) == total:
            return dict(op="bpub", qos=qos, msg=msg, topic=topic, fill="z" * fill)
    return dict(op="bpub", qos=qos, msg=msg)


def rl_bpub(msg, qos, rl):
    """... whose Remaining Length is exactly rl (128, 256, 16384: the length field ends in a continuation byte + 01/02)"""
    import mqttenc as E
    return sized_bpub(msg, qos, 1 + len(E.varint(rl)) + rl)


def gen_recv(rng, idx):
    s = Sc(rng, "recv-%d" % idx)
    r = rng
    mps = r.choice([None, None, 64, 200, 1000])     # Maximum Packet Size the CLIENT announces in CONNECT
    kw = dict(cprops=[[39, mps]]) if mps else {}
    s.cfg(hosts=r.choice([1, 2]), ka=r.choice([0, 30]), tseed=r.randrange(1, 1 << 30), **kw)
    s.run(); s.recv()
    if mps:
        for q in (0, 1, 2):
            if r.random() < 0.7: s.steps.append(sized_bpub("e%d%d" % (idx % 100, q), q, mps - r.choice([0, 0, 1, 2])))
    if r.random() < 0.7: s.sub()
    nb = 0
    if not mps and r.random() < 0.25:
        # packets whose Remaining Length field is 80 01 / 80 02 / 80 80 01, cut into reads of 1-3 bytes: the framer sees the
        # length field end in the middle
        ch = r.choice([1, 2, 3])
        s.add(op="set", chunk=ch)
        for rl in r.sample([128, 256, 384] + ([16384] if ch == 3 and r.random() < 0.4 else []), r.choice([1, 2])):
            nb += 1; s.steps.append(rl_bpub("w%d%d" % (idx % 100, nb), r.choice([0, 1, 2]), rl))
            if rl == 16384: s.steps[0]["budget"] = 200000      # 16 KiB in reads of 1-3 bytes: tens of thousands of handlers
        s.add(op="advance", ms=1)
        s.add(op="set", chunk=0)
    for _ in range(r.randrange(3, 14)):
        k = r.random()
        if k < 0.45:
            nb += 1
            d = dict(op="bpub", qos=r.choice([0, 1, 2, 2]), msg="x%d" % nb)
            if r.random() < 0.3: d["props"] = [[1, 1], [3, "ct"], [38, "bk", "bv%d" % nb]]
            if r.random() < 0.2: d["props"] = d.get("props", []) + [[11, r.choice([1, 200])]]
            s.steps.append(d)
        elif k < 0.55:
            s.add(op="set", chunk=r.choice([1, 2, 3, 5, 0]))
        elif k < 0.68:
            fault_step(s)
        elif k < 0.76:
            s.add(op="connack", sp=r.choice([0, 1, 1, -1]))
        elif k < 0.79:
            # the connection is lost while the client's PUBREC / PUBCOMP (or PUBACK) is being written, the session is lost
            # (or kept), and the broker's next message reuses the packet identifier
            s.add(op="set", auto_write=0)
            nb += 1; q = r.choice([2, 2, 1])
            s.add(op="bpub", qos=q, msg="x%d" % nb)
            if q == 2 and r.random() < 0.7: s.add(op="wend", ec="ok")          # PUBREC went through; the PUBCOMP write is pending
            if r.random() < 0.35:
                # the pending write is reported successful, but its bytes die with the connection (send buffer)
                s.add(op="wend", ec="ok", drop=1)
            else:
                s.add(op="fault", ec=r.choice(["reset", "broken_pipe"]))
            s.add(op="connack", sp=r.choice([0, 0, 1]))
            if r.random() < 0.5:
                s.add(op="advance", ms=r.choice([1, 2000, 4000]))
                s.add(op="set", auto_write=1)
                s.add(op="advance", ms=3000)
                nb += 1; s.add(op="bpub", qos=2, msg="x%d" % nb)
            else:
                # ... and the broker's PUBREL for it is read before the client's PUBREC write has completed (finding F15)
                s.add(op="advance", ms=4000); s.add(op="wend", ec="ok")        # reconnected: the CONNECT write goes through
                nb += 1; s.add(op="bpub", qos=2, msg="x%d" % nb)
                s.add(op="wdeliver"); s.add(op="wend", ec="ok")
                s.add(op="set", auto_write=1)
            if r.random() < 0.5: nb += 1; s.add(op="bpub", qos=r.choice([1, 2]), msg="x%d" % nb)
        elif k < 0.82:
            s.add(op="set", auto_write=0)
            nb += 1
            s.add(op="bpub", qos=r.choice([1, 2]), msg="x%d" % nb)
            s.add(op="wend", ec=r.choice(["reset", "ok", "broken_pipe"]))
            s.add(op="set", auto_write=1)
        elif k < 0.88:
            s.add(op="set", auto_deliver=0)
            nb += 1
            s.add(op="bpub", qos=r.choice([1, 2]), msg="x%d" % nb)
            s.add(op="rdeliver", nb=r.choice([1, 2, 3, 4, 10]))
            if r.random() < 0.5: s.add(op="fault", ec="reset")
            s.add(op="set", auto_deliver=1)
        elif k < 0.93:
            s.sub(unsub=r.random() < 0.3)
        else:
            s.add(op="advance", ms=r.choice([1, 3000, 21000]))
    s.quiesce()
    return s.out()


def gen_lifecycle(rng, idx):
    s = Sc(rng, "life-%d" % idx)
    r = rng
    s.cfg(hosts=r.choice([1, 2]), ka=r.choice([0, 10]), tseed=r.randrange(1, 1 << 30),
          disp=r.choice([[], [], ["refuse"], ["blackhole"], ["refuse", "accept"]]))
    rm = r.choice([None, 1, 2])
    s.add(op="connack", sticky=1, props=caps_props(r, rm), rc=r.choice([0, 0, 0, 0x88]))
    pre = r.random()
    if pre < 0.3: s.pub(); s.sub()
    if pre < 0.9: s.run()
    if r.random() < 0.6: s.recv()
    if r.random() < 0.5: s.add(op="hold"); s.held = True
    if r.random() < 0.2: s.add(op="set", auto_shutdown=0)
    for _ in range(r.randrange(0, 9)):
        env_noise(s, pfault=0.08)
    if r.random() < 0.15 and pre < 0.9:
        # a stream shutdown (broker DISCONNECT) is under way, and within the next few handlers the SAME service object is
        # cancelled through a per-operation terminal cancellation; then the client is run again and loses its connection
        s.quiesce(ms=30000)
        if s.held: s.add(op="unhold"); s.held = False
        s.add(op="bdisc", rc=r.choice([0x8b, 0x98]), nr=1)
        s.add(op="step", k=r.choice([1, 2, 3, 4, 5, 6, 8]))
        s.add(op="cancel_op", id=1 if pre >= 0.3 else 3, type="terminal", now=r.choice([0, 1]))
        s.add(op="drain")
        s.run(); i = s.pub(1)
        s.add(op="advance", ms=1)
        fault_step(s)
        s.pub(1)
        s.quiesce()
        s.add(op="cancel_all"); s.add(op="drain")
        return s.out()
    if r.random() < 0.15:
        # the handshake succeeds and the terminal call lands within the next few handlers (between the completion of
        # connect_op, the cancelled connect timer's completion, and the stream being swapped in); first connection or reconnect
        s2 = Sc(rng, "life-%d" % idx)
        s2.cfg(hosts=r.choice([1, 2]), ka=r.choice([0, 10]), tseed=r.randrange(1, 1 << 30))
        first = r.random() < 0.5
        if not first:
            s2.run(); s2.recv()
            if r.random() < 0.5: s2.pub(1)
            s2.quiesce(ms=30000)
            s2.add(op="hold", kinds=["CONNACK"])
            fault_step(s2)
            s2.add(op="advance", ms=r.choice([1, 2000]))
        else:
            s2.add(op="hold", kinds=["CONNACK"])
            s2.run()
            if r.random() < 0.6: s2.recv()
            if r.random() < 0.5: s2.pub(r.choice([0, 1]))
            s2.add(op="advance", ms=1)
        s2.add(op="ack", i=0, nr=1)                       # the CONNACK is released, nothing has run yet
        s2.add(op="step", k=r.choice([0, 1, 2, 3, 4, 5, 6, 7, 8, 10]))
        t = r.random()
        if t < 0.45: s2.add(op="cancel_all", now=r.choice([0, 1]))
        elif t < 0.65: s2.add(op="destroy", now=r.choice([0, 1]))
        elif t < 0.85: s2.add(op="cancel_op", id=1, type="terminal", now=r.choice([0, 1]))
        else: s2.add(op="disc", id=s2.oid(), rc=0, now=r.choice([0, 1])); s2.add(op="advance", ms=6000)
        s2.add(op="unhold")
        s2.add(op="advance", ms=r.choice([1, 30000])); s2.add(op="drain")
        return s2.out()
    if r.random() < 0.07:
        # a second run of the client after cancel() / async_disconnect: what the previous broker announced (here a small
        # Maximum Packet Size) must not govern requests made before the new run has its own CONNACK
        s4 = Sc(rng, "life-%d" % idx)
        kw4 = {}
        if r.random() < 0.6: kw4["cprops"] = r.choice([[[17, 120]], [[33, 10], [39, 5000]], [[17, 60], [38, "app", "v1"], [34, 5]]])
        if r.random() < 0.3: kw4["user"] = "u%d" % idx; kw4["pass"] = "secret"
        if r.random() < 0.3: kw4["will"] = dict(topic="will/t", payload="gone", qos=1, retain=0, props=[[24, 5]])
        s4.cfg(hosts=r.choice([1, 2]), ka=r.choice([0, 0, 30]), tseed=r.randrange(1, 1 << 30), **kw4)
        s4.add(op="connack", props=[[39, r.choice([20, 30, 40])]] + ([[36, 0], [37, 0]] if r.random() < 0.5 else []))
        s4.run()
        if r.random() < 0.5: s4.recv()
        s4.quiesce(ms=30000)
        if r.random() < 0.5: s4.add(op="cancel_all")
        else: s4.add(op="disc", id=s4.oid(), rc=0); s4.add(op="advance", ms=6000)
        s4.add(op="drain")
        s4.add(op="connack", props=r.choice([[], [[39, 10000]]]))
        s4.add(op="hold", kinds=["CONNACK"])
        s4.run()
        s4.add(op="advance", ms=1)
        if r.random() < 0.5: s4.pub(r.choice([1, 2]), fill="f" * 60)
        s4.add(op="disc", id=s4.oid(), rc=r.choice([0, 4]), props=[[31, "closing down, see you " * 3]])
        s4.add(op="unhold")
        s4.add(op="advance", ms=6000); s4.add(op="drain")
        return s4.out()
    if r.random() < 0.08:
        # the SAME service object is ended by a terminal per-operation cancellation while identifier-holding requests are
        # outstanding, then run again with several exchanges outstanding at once (identifiers, quota, queues start afresh?)
        s3 = Sc(rng, "life-%d" % idx)
        s3.cfg(hosts=r.choice([1, 2]), ka=0, tseed=r.randrange(1, 1 << 30))
        s3.add(op="connack", sticky=1, props=caps_props(r, r.choice([None, None, 2, 3])))
        s3.run(); s3.recv()
        s3.add(op="hold")
        first = [s3.pub(r.choice([1, 2])) if r.random() < 0.8 else s3.sub() for _ in range(r.choice([1, 2, 3]))]
        s3.add(op="advance", ms=r.choice([0, 1]))
        s3.add(op="cancel_op", id=r.choice(first), type="terminal", now=r.choice([0, 1]))
        s3.add(op="drain")
        s3.run()
        for _ in range(r.choice([2, 3, 4])): s3.pub(r.choice([1, 1, 2])) if r.random() < 0.8 else s3.sub()
        s3.add(op="advance", ms=1)
        if r.random() < 0.4: fault_step(s3)
        s3.add(op="unhold")
        s3.quiesce()
        s3.add(op="cancel_all"); s3.add(op="drain")
        return s3.out()
    if r.random() < 0.12 and pre < 0.9:
        # async_disconnect while the connection is being re-established and a QoS 2 exchange sits in its PUBREL phase
        s.quiesce(ms=30000)
        if s.held: s.add(op="unhold"); s.held = False
        s.add(op="hold", kinds=["PUBCOMP"] if r.random() < 0.7 else ["PUBREC"])
        s.pub(2); s.pub(r.choice([0, 1, 2]))
        s.add(op="advance", ms=1)
        m = r.random()
        if m < 0.5:
            s.add(op="fault", ec="reset", nr=r.choice([0, 1]))
            s.add(op="disc", id=s.oid(), rc=0, now=r.choice([0, 1]))
        else:
            s.add(op="set", auto_write=0)
            s.add(op="disc", id=s.oid(), rc=0)
            s.add(op="wend", ec="reset")
            s.add(op="set", auto_write=1)
        s.add(op="advance", ms=r.choice([1, 1000, 6000])); s.add(op="advance", ms=6000)
        s.add(op="drain")
        return s.out()
    # the terminal event, possibly with the preceding step left un-settled, possibly made AHEAD of queued handlers
    now = {}
    k = r.random()
    if k < 0.2:
        # a write completes, its completion handler is queued, and the terminal call overtakes it
        s.add(op="set", auto_write=0)
        if r.random() < 0.5: s.pub(r.choice([0, 1, 2]))
        else: s.sub()
        s.add(op="wdeliver"); s.add(op="wend", ec=r.choice(["ok", "ok", "reset"]), nr=1)
        now = dict(now=1)
    elif k < 0.5 and s.steps and s.steps[-1]["op"] in ("pub", "sub", "unsub", "bpub", "fault", "ack"):
        s.steps[-1]["nr"] = 1
        if r.random() < 0.5: now = dict(now=1)
    t = r.random()
    if t < 0.35:
        s.add(op="cancel_all", **now)
    elif t < 0.75:
        s.add(op="disc", id=s.oid(), rc=r.choice([0, 4]), props=r.choice([[], [[31, "bye"]], [[38, "a", "b"], [17, 5]]]), **now)
        if r.random() < 0.3: s.add(op="fault", ec="reset")
        if r.random() < 0.3: s.add(op="shutdown_ok")
        s.add(op="advance", ms=r.choice([0, 1, 4999, 5000, 6000]))
        s.add(op="advance", ms=6000)
    elif t < 0.85 and s.live:
        s.add(op="cancel_op", id=r.choice(s.live), type="terminal", **now)
    else:
        s.add(op="destroy", **now)
    if now: s.add(op="set", auto_write=1)
    s.add(op="drain")
    if r.random() < 0.3 and t < 0.75:
        # restart
        s.run(); s.pub(1); s.quiesce(); s.add(op="cancel_all"); s.add(op="drain")
    return s.out()


def gen_connect(rng, idx):
    s = Sc(rng, "conn-%d" % idx)
    r = rng
    hosts = r.choice([1, 2, 3, 4])
    disp = [r.choice(["accept", "refuse", "blackhole", "accept"]) for _ in range(hosts)]
    res = [r.choice([1, 1, 1, 0, 2]) for _ in range(hosts)]
    cfg = dict(hosts=hosts, ka=r.choice([0, 10, 60]), tseed=r.randrange(1, 1 << 30), disp=disp, resolve=res)
    if r.random() < 0.5:
        cfg["client_id"] = "cid-%d" % idx
    if r.random() < 0.4:
        cfg["user"] = "u%d" % idx; cfg["pass"] = r.choice(["", "pw"])
    if r.random() < 0.4:
        cfg["will"] = dict(topic="will/t", payload="gone%d" % idx, qos=r.choice([0, 1, 2]), retain=r.choice([0, 1]),
                           props=r.choice([[], [[24, 5]], [[1, 1], [3, "ct"], [38, "wk", "wv"]], [[2, 60], [8, "rt"], [9, {"hex": "0102"}]]]))
    if r.random() < 0.4:
        cfg["cprops"] = r.choice([[[17, 120]], [[33, 10], [39, 4096]], [[34, 5], [25, 1], [23, 1]], [[38, "ck", "cv"], [38, "ck", "cv2"]]])
    if r.random() < 0.3:
        cfg["auth"] = dict(method="meth%d" % (idx % 3), rounds=r.choice([0, 0, 1, 2]), fail=r.choice([-1, -1, -1, 0, 1, 2]))
    s.cfg(**cfg)
    for _ in range(r.randrange(0, 4)):
        s.add(op="connack", rc=r.choice([0, 0x80, 0x87, 0x88, 0x89, 0x9f]), sp=r.choice([0, -1]))
    if r.random() < 0.5: s.pub(1)
    s.run()
    for _ in range(r.randrange(2, 10)):
        k = r.random()
        if k < 0.35: s.add(op="advance", ms=r.choice([100, 1000, 4999, 5000, 5001, 9000, 17000, 33000]))
        elif k < 0.5: s.add(op="fire")
        elif k < 0.6: s.add(op="disp", host=r.randrange(hosts), d=r.choice(["accept", "refuse", "blackhole"]))
        elif k < 0.7: fault_step(s)
        elif k < 0.8: s.pub()
        else: s.add(op="connack", rc=r.choice([0, 0x88, 0x8a]))
    s.quiesce(ms=400000)
    return s.out()


def gen_caps(rng, idx):
    s = Sc(rng, "caps-%d" % idx)
    r = rng
    if r.random() < 0.3: s.cfg(hosts=1, ka=0, auth=dict(method="am%d" % (idx % 2), rounds=r.choice([0, 1, 2])))
    else: s.cfg(hosts=1, ka=0)
    props = []
    mq = r.choice([None, 0, 1, 2])
    if mq is not None: props.append([36, mq])
    ra = r.choice([None, 0, 1])
    if ra is not None: props.append([37, ra])
    tam = r.choice([None, 0, 1, 5])
    if tam is not None: props.append([34, tam])
    mps = r.choice([None, None, 20, 30, 40, 64, 200])
    if mps is not None: props.append([39, mps])
    for pid in (40, 41, 42):
        v = r.choice([None, 0, 1])
        if v is not None: props.append([pid, v])
    rm = r.choice([None, 1, 2])
    if rm is not None: props.append([33, rm])
    s.add(op="connack", sticky=1, props=props)
    s.run()
    for _ in range(r.randrange(3, 10)):
        k = r.random()
        if k < 0.6:
            kw = {}
            if r.random() < 0.5: kw["retain"] = r.choice([0, 1])
            pr = []
            if r.random() < 0.5: pr.append([35, r.choice([0, 1, 2, 5, 6, 65535])])
            if mps and r.random() < 0.7:
                # aim at the size boundary: fixed header 2 + topic (2+len) + pid 2 + props 1(+3 alias) + payload
                kw["fill"] = "f" * max(0, mps - r.choice([8, 12, 14, 15, 16, 17, 18, 19, 20, 25]))
            if pr: kw["props"] = pr
            s.pub(**kw)
            if "props" in kw: s.steps[-1]["props"] = pr
        elif k < 0.85:
            i = s.oid(); s.nmsg += 1
            shapes = ["a/b%d", "a/+/%d", "a%d/#", "$share/g/a%d", "$share/g/a%d/#"]
            f = r.choice(shapes) % s.nmsg
            d = dict(op="sub", id=i, topics=[f])
            if r.random() < 0.5:
                # several Topic Filters in one request, the one needing a (possibly disabled) feature in any position
                fs = [f] + [r.choice(shapes) % (s.nmsg * 10 + j + 1) for j in range(r.choice([1, 2]))]
                r.shuffle(fs)
                d["topics"] = fs
            if r.random() < 0.4: d["props"] = [[11, r.choice([1, 5, 268435455])]]
            elif mps and r.random() < 0.4: d["topics"] = ["t" * max(0, mps - r.choice([10, 12, 14, 16, 18])) + "/" + f if not f.startswith("$share") else f]
            s.steps.append(d)
        else:
            s.sub(unsub=True)
    s.quiesce()
    if r.random() < 0.4 and mps:
        s.add(op="disc", id=s.oid(), rc=0, props=[[31, "r" * r.choice([mps - 8, mps - 6, mps - 5, mps, 1])]])
        s.add(op="advance", ms=6000); s.add(op="drain")
    return s.out()


def gen_keepalive(rng, idx):
    s = Sc(rng, "ka-%d" % idx)
    r = rng
    ka = r.choice([0, 1, 2, 5, 10, 60, 120])
    s.cfg(hosts=r.choice([1, 2]), ka=ka, tseed=r.randrange(1, 1 << 30))
    ska = r.choice([None, None, 0, 1, 3, 7, 30])
    s.add(op="connack", sticky=1, props=[] if ska is None else [[19, ska]])
    varying = r.random() < 0.5
    if varying:
        # the negotiated keep-alive changes from one connection to the next (Server Keep Alive appears, shrinks, grows,
        # disappears), on resumed (Session Present 1) and on fresh sessions
        for _ in range(r.randrange(1, 4)):
            k2 = r.choice([None, 1, 2, 3, 7, 30, 90])
            s.add(op="connack", sp=r.choice([1, 1, 0, -1]), props=[] if k2 is None else [[19, k2]])
    s.run()
    k_eff = ka if ska is None else ska
    for _ in range(r.randrange(2, 8)):
        k = r.random()
        if k < 0.4: s.add(op="advance", ms=r.choice([k_eff * 1000 - 1, k_eff * 1000, k_eff * 1000 + 1, k_eff * 1500 - 1, k_eff * 1500, k_eff * 1500 + 1, 700, 3000]) if k_eff else r.choice([1000, 60000, 600000]))
        elif k < 0.55: s.add(op="hold", kinds=["PINGRESP"])
        elif k < 0.65: s.add(op="unhold")
        elif k < 0.8: s.pub(1)
        elif k < 0.9: s.add(op="bpub", qos=0, msg="k%d" % len(s.steps))
        else: fault_step(s)
        if varying and r.random() < 0.35:
            fault_step(s)
            s.add(op="advance", ms=r.choice([2000, 8000, 31000, 95000]))
    s.add(op="unhold")
    s.quiesce(ms=r.choice([60000, 400000]))
    return s.out()


# ----------------------------------------------------------------------------- crash-point enumeration
def _bases():
    """small deterministic base scenarios; each is (name, prefix-steps, body-steps); the crash point is armed between them"""
    B = []
    def pub(i, q, **kw): d = dict(op="pub", id=i, qos=q, msg="m%d" % i); d.update(kw); return d
    conn_rm1 = [dict(op="connack", sticky=1, props=[[33, 1]])]
    conn_rm2 = [dict(op="connack", sticky=1, props=[[33, 2]])]
    B.append(("pubs", [], [pub(10, 1), pub(11, 2), dict(op="sub", id=12, topics=["f/a", "f/b"]), pub(13, 0), dict(op="unsub", id=14, topics=["f/a"])]))
    B.append(("rm1", conn_rm1, [pub(10, 1), pub(11, 2), pub(12, 1), pub(13, 0), pub(14, 2)]))
    B.append(("rm2held", conn_rm2, [dict(op="hold"), pub(10, 2), pub(11, 1), pub(12, 1), dict(op="ack", i=1), dict(op="ack", i=0), pub(13, 2), dict(op="unhold")]))
    B.append(("inbound", [], [dict(op="sub", id=10, topics=["in/#"]), dict(op="bpub", qos=1, msg="x1"), dict(op="bpub", qos=2, msg="x2"),
                              dict(op="bpub", qos=0, msg="x3"), dict(op="bpub", qos=2, msg="x4"), dict(op="bpub", qos=1, msg="x5")]))
    B.append(("inheld", [], [dict(op="hold", kinds=["PUBREL"]), dict(op="bpub", qos=2, msg="x1"), dict(op="bpub", qos=2, msg="x2"), dict(op="ack", i=0),
                             dict(op="bpub", qos=1, msg="x3"), dict(op="unhold")]))
    B.append(("mixed", conn_rm1, [pub(10, 2), dict(op="bpub", qos=2, msg="x1"), pub(11, 1), dict(op="bpub", qos=1, msg="x2"), dict(op="sub", id=12, topics=["q"]), pub(13, 2)]))
    B.append(("cancel", conn_rm1, [pub(10, 1), pub(11, 1), pub(12, 2), dict(op="cancel_op", id=11, type="total"), pub(13, 1)]))
    B.append(("chunk", [], [dict(op="set", chunk=1), pub(10, 2), dict(op="bpub", qos=2, msg="x1"), pub(11, 1)]))
    return B


def gen_crash_all(thorough=False):
    out = []
    for (name, pre, body) in _bases():
        head = [dict(op="cfg", hosts=2, ka=0, tseed=7)] + pre + [dict(op="run", id=1), dict(op="recv", id=2, loop=1)]
        rmv = pre[0]["props"][0][1] if pre else None
        tail = [dict(op="quiesce", ms=150000)]
        if rmv is not None:
            tail = [dict(op="quiesce", ms=60000)] + quota_probe(50, rmv) + tail
        def emit(tag, arm):
            out.append(json.dumps(dict(name="crash-%s-%s" % (name, tag), steps=head + arm + body + tail), separators=(",", ":")))
        emit("none", [])
        for k in range(1, 13 if not thorough else 17):
            for dl in ((0, -1) if not thorough else (0, -1, 1, 3, 7)):
                for ec in (("reset",) if not thorough else ("reset", "broken_pipe", "timed_out")):
                    emit("w%d-d%d-%s" % (k, dl, ec), [dict(op="set", wfault_at=k, wfault_deliver=dl, wfault_ec=ec)])
        for n in range(1, 70 if not thorough else 140):
            emit("r%d" % n, [dict(op="set", rfault_after=n)])
        if thorough:   # double faults: a write crash followed by a read crash on the next connection
            for k in range(1, 9):
                for n in range(4, 40, 3):
                    emit("w%d-r%d" % (k, n), [dict(op="set", wfault_at=k, wfault_deliver=-1), dict(op="set", rfault_after=n)])
    return out


# ----------------------------------------------------------------------------- hostile broker bytes (C19)
def _hostile_bases():
    import mqttenc as E
    rs = [[31, "why"]]; up = [[38, "k", "v"]]
    B = {
        "connack": E.connack(0, 0, [[33, 10], [39, 1000], [19, 30]] + up),
        "connack0": E.connack(0, 0),
        "connack_pl80": bytes([0x20, 0x03, 0x00, 0x00, 0x80]),    # Property Length cut off after a continuation byte
        "pub1_rl128": E.publish("in/r", "h9|" + "p" * 116, 1, pid=12),       # Remaining Length 128: length bytes 80 01
        "pub0_rl256": E.publish("in/s", "h8|" + "q" * 246, 0),               # Remaining Length 256: length bytes 80 02
        "connack_rm0": E.connack(0, 0, [[33, 0]]),            # Receive Maximum 0: a Protocol Error (finding F14)
        "connack_mps0": E.connack(0, 0, [[39, 0]]),           # Maximum Packet Size 0: a Protocol Error
        "connack_sp": E.connack(1, 0, [[18, "assigned"], [26, "ri"], [28, "ref"]]),
        "auth": E.auth(0x18, [[21, "m"], [22, "d"]]),
        "pub0": E.publish("in/a", "h0|p", 0, ps=[[1, 1], [3, "ct"], [11, 5]] + up),
        "pub1": E.publish("in/b", "h1|p", 1, pid=9, ps=[[8, "rt"], [9, "cd"]]),
        "pub2": E.publish("in/c", "h2|p", 2, pid=10, ps=[[2, 60], [35, 3]]),
        "puback": E.ack(4, 1, 0, rs), "puback_s1": E.ack(4, 1, 0x10, short=1), "puback_s2": E.ack(4, 1, short=2),
        "pubrec": E.ack(5, 2, 0, up), "pubrec_fail": E.ack(5, 2, 0x97, rs),
        "pubrel": E.ack(6, 10, 0), "pubrel_unknown": E.ack(6, 77, 0x92, rs),
        "pubcomp": E.ack(7, 2, 0, rs),
        "suback": E.suback(9, 3, [0, 2], rs + up), "suback_1code": E.suback(9, 3, [1]), "suback_3codes": E.suback(9, 3, [0, 1, 2]),
        "suback_badcode": E.suback(9, 3, [0, 3]),
        "unsuback": E.suback(11, 3, [0, 17], rs),
        "disconnect": E.disconnect(0x8b, rs + [[28, "other"]]), "disconnect_s": bytes([0xe0, 0x00]),
        "pingresp": E.pingresp(),
        "connect_from_broker": bytes([0x10, 0x0d, 0, 4]) + b"MQTT" + bytes([5, 0, 0, 0, 0, 0, 0]),
        "subscribe_from_broker": bytes([0x82, 0x06, 0, 5, 0, 0, 1]) + b"a" + bytes([0]),
        "pingreq_from_broker": bytes([0xc0, 0x00]),
    }
    return B


def _mutations(b, rng, full):
    out = [("valid", b)]
    n = len(b)
    for k in range(1, n): out.append(("trunc%d" % k, b[:k]))
    body = b[2:] if b[1] < 0x80 else b[1 + next(i for i in range(1, 5) if b[i] < 0x80):]
    for name, rl in (("rl0", b"\x00"), ("rl1", b"\x01"), ("rlm1", bytes([max(0, len(body) - 1)])), ("rlp1", bytes([min(127, len(body) + 1)])),
                     ("rl127", b"\x7f"), ("rl2b", bytes([0x80 | (len(body) & 0x7f), len(body) >> 7])), ("rl4max", b"\xff\xff\xff\x7f"),
                     ("rl5", b"\xff\xff\xff\xff\x01"), ("rlhuge", b"\xff\xff\x03")):
        out.append((name, b[:1] + rl + body))
    if len(body) + 1 < 128:
        out.append(("rlp1pad0", b[:1] + bytes([len(body) + 1]) + body + b"\x00"))      # one byte too many INSIDE the packet
        out.append(("rlp1pad40", b[:1] + bytes([len(body) + 1]) + body + b"\x40"))
    for f in range(16): out.append(("flags%x" % f, bytes([(b[0] & 0xf0) | f]) + b[1:]))
    for t in range(16): out.append(("type%x" % t, bytes([(t << 4) | (b[0] & 0x0f)]) + b[1:]))
    for i in range(1, n):
        for x in ((0xff, 0x80, 0x01) if full else (0xff,)):
            m = bytearray(b); m[i] ^= x; out.append(("flip%d_%02x" % (i, x), bytes(m)))
        for v in ((0x00, 0xff, 0x7f) if full else ()):
            m = bytearray(b); m[i] = v; out.append(("set%d_%02x" % (i, v), bytes(m)))
    out.append(("tail", b + bytes(rng.randrange(256) for _ in range(rng.randrange(1, 9)))))
    out.append(("double", b + b))
    out.append(("garbage_first", bytes(rng.randrange(256) for _ in range(3)) + b))
    return out


def gen_hostile_all(seed, count, full=False):
    rng = random.Random("hostile-%d" % seed)
    cases = []
    for name, b in _hostile_bases().items():
        for (mn, mb) in _mutations(b, rng, full):
            for ch in (0, 1, 3):
                cases.append((name, mn, mb, ch))
    if not full and len(cases) > count:
        keep = [c for c in cases if c[1] in ("valid", "rl0", "rl1", "rlm1", "rlp1", "rl5", "rl4max", "rlp1pad0", "rlp1pad40")]
        rest = [c for c in cases if c not in keep]
        rng.shuffle(rest)
        cases = keep + rest[:max(0, count - len(keep))]
    out = []
    # packets around the client's receive limit (its CONNECT Maximum Packet Size, 65536 when it announces none):
    # up to the limit they are ordinary traffic, above it the client must give the connection up and recover
    for lim in (None, 100, 130, 2000, 16500, 20000):
        L = lim or 65536
        for total in (L - 1, L, L + 1, L + 2, L + 3, L + 4, L + 64):
            for ch in ((0, 7) if L > 3000 else (0, 1, 3)):
                kw = dict(cprops=[[39, lim]]) if lim else {}
                if L > 3000: kw["budget"] = 100000
                steps = [dict(op="cfg", hosts=2, ka=0, tseed=11, **kw), dict(op="run", id=1), dict(op="recv", id=2, loop=1),
                         dict(op="hold"), dict(op="pub", id=10, qos=1, msg="m10")]
                if ch: steps.append(dict(op="set", chunk=ch))
                steps += [dict(op="bbytes", pub_total=total), dict(op="advance", ms=1), dict(op="set", chunk=0), dict(op="unhold"), dict(op="quiesce", ms=200000)]
                out.append(json.dumps(dict(name="hostile-es-size%d-t%d-c%d" % (L, total, ch), steps=steps), separators=(",", ":")))
    for (name, mn, mb, ch) in cases:
        hx = mb.hex()
        steps = [dict(op="cfg", hosts=2, ka=0, tseed=11)]
        if name.startswith("connack") or name == "auth":
            # handshake phase: the hostile bytes arrive instead of the CONNACK
            steps += [dict(op="hold", kinds=["CONNACK"]), dict(op="run", id=1), dict(op="recv", id=2, loop=1),
                      dict(op="pub", id=10, qos=1, msg="m10")]
            if ch: steps.append(dict(op="set", chunk=ch))
            steps += [dict(op="bbytes", hex=hx), dict(op="advance", ms=1), dict(op="set", chunk=0), dict(op="unhold"), dict(op="quiesce", ms=200000)]
            out.append(json.dumps(dict(name="hostile-hs-%s-%s-c%d" % (name, mn, ch), steps=steps), separators=(",", ":")))
        # established phase (every base, including CONNACK-type packets arriving late)
        steps = [dict(op="cfg", hosts=2, ka=0, tseed=11), dict(op="run", id=1), dict(op="recv", id=2, loop=1),
                 dict(op="hold"), dict(op="hold", kinds=["PUBREL"]),
                 dict(op="pub", id=10, qos=1, msg="m10"), dict(op="pub", id=11, qos=2, msg="m11"), dict(op="sub", id=12, topics=["hs/a", "hs/b"]),
                 dict(op="bpub", qos=2, msg="x1")]
        if ch: steps.append(dict(op="set", chunk=ch))
        steps += [dict(op="bbytes", hex=hx), dict(op="advance", ms=1), dict(op="set", chunk=0), dict(op="unhold"), dict(op="quiesce", ms=200000)]
        out.append(json.dumps(dict(name="hostile-es-%s-%s-c%d" % (name, mn, ch), steps=steps), separators=(",", ":")))
    return out


def gen_session(rng, idx):
    """subscriptions (succeeding, failing, in flight, cancelled), reconnects with Session Present 0/1, inbound traffic"""
    s = Sc(rng, "sess-%d" % idx)
    r = rng
    s.cfg(hosts=r.choice([2, 3]), ka=0, tseed=r.randrange(1, 1 << 30))
    if r.random() < 0.15: s.add(op="connack", sp=1)
    s.run(); s.recv()
    nb = 0
    if r.random() < 0.15:
        # a subscribe in flight across a session loss, acknowledged on the new session; then the new session is lost too
        if r.random() < 0.8: s.sub()
        s.add(op="hold", kinds=["SUBACK"]); s.sub()
        s.add(op="advance", ms=1)
        s.add(op="connack", sp=0); fault_step(s); s.add(op="advance", ms=r.choice([1, 3000]))
        s.add(op="unhold"); s.add(op="advance", ms=1)
        if r.random() < 0.5: nb += 1; s.add(op="bpub", qos=r.choice([0, 1]), msg="y%d" % nb)
        s.add(op="connack", sp=r.choice([0, 0, 1])); fault_step(s); s.add(op="advance", ms=r.choice([1, 3000]))
        nb += 1; s.add(op="bpub", qos=r.choice([0, 1, 2]), msg="y%d" % nb)
    for _ in range(r.randrange(3, 11)):
        k = r.random()
        if k < 0.22:
            s.sub()
        elif k < 0.34:
            # a subscription whose SUBACK is outstanding while other things happen
            if not s.held: s.add(op="hold", kinds=["SUBACK"]); s.held = True
            s.sub()
        elif k < 0.42:
            if s.held: s.add(op="unhold"); s.held = False
        elif k < 0.48:
            # a subscription the broker refuses entirely
            s.add(op="hold", kinds=["SUBACK"]); i = s.sub(n=r.choice([1, 2]))
            n = len(s.steps[-1]["topics"])
            s.add(op="ack", i=0, codes=[r.choice([128, 135, 143]) for _ in range(n)]); s.add(op="unhold"); s.held = False
        elif k < 0.62:
            # a reconnect whose first attempt is refused by the broker (such a CONNACK carries Session Present 0) and
            # whose next attempt resumes - or does not resume - the session
            s.add(op="connack", rc=r.choice([0x88, 0x89, 0x9c, 0x87]), sp=0)
            s.add(op="connack", sp=r.choice([1, 1, 0, -1]))
            fault_step(s)
            s.add(op="advance", ms=r.choice([1, 3000, 20000]))
        elif k < 0.80:
            s.add(op="connack", sp=r.choice([0, 0, 1, -1]))
            fault_step(s)
            if r.random() < 0.5: s.add(op="advance", ms=r.choice([1, 2000, 30000]))
        elif k < 0.90:
            nb += 1; s.add(op="bpub", qos=r.choice([0, 1, 2]), msg="y%d" % nb)
        elif s.live:
            s.add(op="cancel_op", id=r.choice(s.live), type="total")
    if s.held: s.add(op="unhold"); s.held = False
    s.quiesce()
    return s.out()


def gen_misbehave(rng, idx):
    """a broker whose SUBACK / UNSUBACK has the wrong number of reason codes or an inadmissible code (C14 only)"""
    s = Sc(rng, "misb-%d" % idx)
    r = rng
    s.cfg(hosts=2, ka=0, tseed=r.randrange(1, 1 << 30))
    s.run()
    if r.random() < 0.25:
        # a well-formed but unsolicited (duplicate) acknowledgement arrives while nothing is being written; the next
        # request of that kind is given the same packet identifier and must NOT be completed by the stale packet
        import mqttenc as E
        unsub = r.random() < 0.4
        s.sub(unsub=unsub, n=1)                                   # request A: identifier 1, acknowledged at once
        stale = E.suback(11 if unsub else 9, 1, [r.choice([0, 17] if unsub else [0, 1, 2])])
        s.add(op="bbytes", hex=stale.hex())
        s.add(op="hold", kinds=["SUBACK", "UNSUBACK"])
        s.sub(unsub=unsub, n=1)                                   # request B: identifier 1 again
        s.add(op="advance", ms=1)
        s.add(op="ack", i=0, codes=[135] if not unsub else [135])  # the broker's real verdict: not authorized
        s.add(op="unhold")
        s.quiesce()
        return s.out()
    s.add(op="hold", kinds=["SUBACK", "UNSUBACK"])
    unsub = r.random() < 0.4
    n = r.choice([1, 2, 3, 4])
    i = s.sub(unsub=unsub, n=n)
    good = UNSUBACK_RCS if unsub else SUBACK_RCS
    bad = [c for c in (3, 4, 16, 17, 24, 64, 127, 129, 144, 146, 255, 1, 2) if c not in good]
    codes = [r.choice(good) for _ in range(n)]
    k = r.random()
    if k < 0.25: codes = codes[:-1] if n > 1 else []                        # one too few
    elif k < 0.45: codes = codes + [r.choice(good)]                          # one too many
    elif k < 0.75: codes[r.randrange(n)] = r.choice(bad)                     # an inadmissible code in place
    elif k < 0.9: codes.insert(r.randrange(n + 1), r.choice(bad))            # an extra, inadmissible code
    # else: a correct acknowledgement (control)
    if codes: s.add(op="ack", i=0, codes=codes, props=s.ackprops())
    else: s.add(op="ack", i=0, codes=[r.choice(bad)])
    s.add(op="advance", ms=1)
    s.add(op="unhold")
    s.quiesce()
    return s.out()


FAMILIES = dict(misbehave=gen_misbehave, session=gen_session, send=gen_send, recv=gen_recv, lifecycle=gen_lifecycle, connect=gen_connect, caps=gen_caps, keepalive=gen_keepalive)


def serial_wrap_scenarios():
    """old requests must stay ordered before young ones however many requests were made in between: an unacknowledged
    QoS 1/2 publish, tens of thousands of (untraced) QoS 0 publishes, another unacknowledged publish, a reconnect"""
    out = []
    for (n, q1, q2) in ((33000, 1, 1), (40000, 2, 1)):
        steps = [dict(op="cfg", hosts=2, ka=0, tseed=3), dict(op="run", id=1), dict(op="recv", id=2, loop=1), dict(op="advance", ms=1),
                 dict(op="hold"), dict(op="pub", id=10, qos=q1, msg="old"), dict(op="advance", ms=1),
                 dict(op="burst", n=n),
                 dict(op="pub", id=11, qos=q2, msg="young"), dict(op="advance", ms=1),
                 dict(op="fault", ec="reset"), dict(op="advance", ms=3000), dict(op="unhold"), dict(op="quiesce", ms=150000)]
        out.append(json.dumps(dict(name="send-wrap-%d" % n, steps=steps), separators=(",", ":")))
    return out


def generate(family, seed, count):
    if family == "crash":
        return gen_crash_all(thorough=count > 5000)
    if family == "hostile":
        return gen_hostile_all(seed, count, full=count > 20000)
    if family == "model":
        import l3
        return l3.scripts("thorough" if count > 5000 else "quick")
    if family == "modelrecv":
        import l3
        return l3.scripts_recv("thorough" if count > 5000 else "quick")
    rng = random.Random("%s-%d" % (family, seed))
    f = FAMILIES[family]
    return [f(rng, i) for i in range(count)] + (serial_wrap_scenarios() if family == "send" else [])


if __name__ == "__main__":
    fam, seed, count = sys.argv[1], int(sys.argv[2]), int(sys.argv[3])
    for line in generate(fam, seed, count):
        print(line)
