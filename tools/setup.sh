#!/bin/bash
# Builds the framework from files on disk only (offline): harness binaries from /repo's working tree,
# and a syntax/semantic check of every TLA+ module.
set -e
cd /verif
mkdir -p _work/bin evidence
make -C harness -j16 REPO=/repo OUT=/verif/_work/bin >/dev/null
for m in spec/*.tla; do
  (cd spec && tla-sany "$(basename $m)" >/dev/null 2>&1) || { echo "SANY failed on $m"; exit 1; }
done
echo "setup ok"
